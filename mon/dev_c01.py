import sys, json, collections, random
sys.path.insert(0, '/verif/mon')
import core, gen, spell, norm
core.build_probe()
p = core.Probe()
N = int(sys.argv[1]) if len(sys.argv) > 1 else 300
avoid = set(sys.argv[2].split(",")) if len(sys.argv) > 2 and sys.argv[2] else set()
cls = collections.Counter()
ex = {}
okc = 0
for i in range(N):
    rng = random.Random(i)
    g = gen.Gen(rng, avoid=avoid)
    toks, nf = g.library(rng.randint(1, 3))
    text = spell.canonical(toks)
    o = p.run({"op": "parse", "text": text})
    if "panic" in o or "died" in o:
        k = "PANIC " + json.dumps(o.get("panic"))[:200]
    elif not o.get("ok"):
        d = o["diag"]
        k = "REJECT " + d["code"] + " at '" + text[max(0, d["primary"]["start"] - 25):d["primary"]["end"] + 10].replace("\n", " ") + "'"
        k = k[:140]
    else:
        try:
            obs = norm.library(o["dump"], o["addrs"])
            exp = norm.normalize_expected(nf)
            d = norm.diff(exp, obs)
            if d is None:
                if sorted(g.addrs) != sorted([list(a) for a in o["addrs"]]):
                    d = ("addrs", g.addrs, o["addrs"])
            if d is None:
                okc += 1
                continue
            import re
            k = "DIFF " + re.sub(r"\[\d+\]", "[]", d[0]) + " exp=" + json.dumps(d[1])[:60] + " obs=" + json.dumps(d[2])[:60]
        except norm.NormError as e:
            k = "NORMERR " + str(e)[:100]
    cls[k] += 1
    ex.setdefault(k, text)
print("ok", okc, "of", N)
for k, c in cls.most_common(60):
    print(c, k)
    if len(sys.argv) > 3:
        print("     ", ex[k][:400])
