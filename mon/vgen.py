"""Valid-by-construction unit generator (V) and fault planters (F).

A unit is a list of top-level declarations kept as a small model (dicts) so that planters can
mutate it; render_decl() spells one declaration.  V-units are type-correct and fully declared and
stay inside the sub-language for which the analyzer does not answer P9999 (found by reading and
checked empirically: a P9999 on a V-unit is counted as 'unsupported', never judged)."""
import copy

INTS = ["SINT", "INT", "DINT", "LINT", "USINT", "UINT", "UDINT", "ULINT"]
ELEMS = INTS + ["BOOL", "REAL", "LREAL", "TIME", "BYTE", "WORD"]


class VGen:
    def __init__(self, rng, prefix="", avoid=()):
        self.rng = rng
        self.n = 0
        self.prefix = prefix
        self.avoid = set(avoid)
        self.features = set()
        self.local_pool = {}
        self.cur_locals = set()

    def feature(self, name, p):
        """Optional shapes of valid programs that may be switched off (known findings)."""
        if name in self.avoid or not self.chance(p):
            return False
        self.features.add(name)
        return True

    def fresh(self, stem):
        self.n += 1
        # a few letters of every part of the alphabet, in both cases, so that case folding is exercised on all of it
        tail = ["", "", "", "z", "Zq", "jk", "WX", "y"][self.n % 8]
        if stem in ("Fb", "Struct", "Enum") and not self.prefix and "std-like-prefix" not in self.avoid and self.rng.random() < 0.08:
            # user types named after what they wrap: CTU_Batch, TON_Delay ... (ordinary identifiers)
            self.features.add("std-like-prefix")
            return "%s%s%s%d" % (self.pick(["CTU_", "CTD_", "CTUD_", "TON_", "TP_", "SR_", "R_TRIG_"]), stem, tail, self.n)
        return "%s%s%s%d" % (self.prefix, stem, tail, self.n)

    def local(self, stem):
        """A POU-local name.  Real programs reuse the same few local names (i, x, timer) in many POUs, so about a
        third of the locals are drawn from the names other POUs of this unit already use for the same purpose."""
        pool = self.local_pool.setdefault(stem, [])
        free = [n for n in pool if n not in self.cur_locals]
        if free and self.chance(0.35):
            name = self.pick(free)
            self.features.add("local-name-shared")
        else:
            name = self.fresh(stem)
            pool.append(name)
        self.cur_locals.add(name)
        return name

    def pick(self, seq):
        return seq[self.rng.randrange(len(seq))]

    def chance(self, p):
        return self.rng.random() < p

    # ------------------------------------------------------------ unit
    def unit(self, n_types=None, n_fbs=None, n_programs=None, with_config=None, n_functions=None):
        r = self.rng
        decls = []
        enums, structs, subranges, arrays, strings = [], [], [], [], []
        n_types = r.randint(0, 4) if n_types is None else n_types
        for _ in range(n_types):
            k = self.pick(["enum", "enum", "subrange", "struct", "array", "string", "alias"])
            if not enums and self.chance(0.5):
                k = "enum"
            elif enums and not structs and self.chance(0.35):
                k = "struct"
            if k == "enum":
                name = self.fresh("Enum")
                vals = [self.fresh("ev") for _ in range(r.randint(2, 4))]
                d = {"k": "enum", "name": name, "values": vals, "default": self.pick([None, 0, len(vals) - 1])}
                if self.feature("enum-self-qualified", 0.2):
                    # values and default written with the name of their own type in front (Color#Red): the same values
                    d["qualified"] = self.pick([["default"], ["default", 0], [0, len(vals) - 1], list(range(len(vals))) + ["default"]])
                enums.append(d)
            elif k == "alias" and enums:
                base = self.pick(enums)
                d = {"k": "alias", "name": self.fresh("Alias"), "base": base["name"], "values": base["values"]}
                enums.append(d)
            elif k == "subrange":
                lo = r.randint(-50, 50)
                hi = lo + r.randint(1, 100)
                d = {"k": "subrange", "name": self.fresh("Range"), "base": self.pick(["INT", "DINT", "SINT"]),
                     "lo": lo, "hi": hi, "default": self.pick([None, lo, hi])}
                subranges.append(d)
            elif k == "struct":
                elems = []
                for _ in range(r.randint(1, 4)):
                    tk = self.pick(["elem", "elem", "enum", "struct", "other"] if not enums else
                                   ["elem", "enum", "enum", "struct", "other"])
                    if tk == "other":
                        # the remaining kinds of element: declared string / array types, inline array, inline
                        # enumeration, inline subrange, a declared subrange or string type with an initial value
                        opts = ["ARRAY[0..%d] OF INT" % r.randint(1, 4), "(%s, %s)" % (self.fresh("iv"), self.fresh("iv")),
                                "INT(0..%d)" % r.randint(1, 9)]
                        opts += [x["name"] for x in strings] + [x["name"] for x in arrays]
                        opts += ["%s := %d" % (x["name"], x["lo"]) for x in subranges]
                        opts += ["%s := %s" % (x["name"], '"ab"' if x.get("wide") else "'ab'") for x in strings]
                        elems.append([self.fresh("m"), self.pick(opts)])
                        self.features.add("struct-elem-other-kinds")
                    elif tk == "enum" and enums:
                        e_ = self.pick(enums)
                        if self.chance(0.5):
                            elems.append([self.fresh("m"), "%s := %s" % (e_["name"], self.pick(e_["values"]))])
                        else:
                            elems.append([self.fresh("m"), e_["name"]])
                    elif tk == "struct" and structs:
                        elems.append([self.fresh("m"), self.pick(structs)["name"]])
                    else:
                        elems.append([self.fresh("m"), self.pick(ELEMS)])
                d = {"k": "struct", "name": self.fresh("Struct"), "elems": elems}
                structs.append(d)
            elif k == "array":
                lo = r.randint(0, 3)
                d = {"k": "array", "name": self.fresh("Arr"), "lo": lo, "hi": lo + r.randint(1, 9),
                     "elem": self.pick(INTS + ["BOOL"])}
                arrays.append(d)
            elif k == "string":
                d = {"k": "string", "name": self.fresh("Str"), "len": r.randint(1, 80),
                     "wide": self.chance(0.3)}
                strings.append(d)
            else:
                continue
            decls.append(d)
        types = {"enums": enums, "structs": structs, "subranges": subranges, "arrays": arrays, "strings": strings}

        functions = []
        n_functions = r.randint(0, 2) if n_functions is None else n_functions
        for _ in range(n_functions):
            name = self.fresh("Func")
            self.cur_locals = set()
            inputs = [[self.local("a"), self.pick(INTS)] for _ in range(r.randint(1, 3))]
            d = {"k": "function", "name": name, "ret": self.pick(INTS), "inputs": inputs}
            names = [i[0] for i in inputs]
            d["body"] = [["assign", name, self.expr(names, [], 1)]]
            if self.chance(0.5):
                d["body"] = self.body(names, [], [], 1) + d["body"]
            functions.append(d)
            decls.append(d)

        globals_ = []
        with_config = self.chance(0.7) if with_config is None else with_config
        if with_config:
            for _ in range(r.randint(0, 3)):
                globals_.append({"name": self.fresh("g"), "class": "VAR_GLOBAL", "qual": "", "type": self.pick(INTS),
                                 "init": self.pick([None, "1"]), "kind": "elem"})
            if self.chance(0.4):
                globals_.append({"name": self.fresh("gc"), "class": "VAR_GLOBAL", "qual": "CONSTANT",
                                 "type": self.pick(INTS), "init": "7", "kind": "elem"})

        fbs = []
        n_fbs = r.randint(0, 3) if n_fbs is None else n_fbs
        for _ in range(n_fbs):
            d = self.pou("fb", types, fbs, functions, globals_)
            fbs.append(d)
            decls.append(d)
        programs = []
        n_programs = r.randint(0, 2) if n_programs is None else n_programs
        for _ in range(n_programs):
            d = self.pou("program", types, fbs, functions, globals_)
            programs.append(d)
            decls.append(d)
        if with_config:
            if not programs:
                d = self.pou("program", types, fbs, functions, globals_)
                programs.append(d)
                decls.append(d)
            n_cfg = 2 if self.feature("two-configurations", 0.3) else 1
            task_pool = []
            for ci in range(n_cfg):
                tasks = []
                for _ in range(r.randint(0, 2)):
                    # task names are scoped to their resource: another configuration may reuse them
                    free = [n for n in task_pool if n not in [t[0] for t in tasks]]
                    tn = self.pick(free) if free and self.chance(0.4) else self.fresh("task")
                    if tn not in task_pool:
                        task_pool.append(tn)
                    tasks.append([tn, r.randint(0, 10), self.pick([None, "T#100ms", "T#1s"])])
                progs = []
                for _ in range(r.randint(1, 2)):
                    t = self.pick(tasks)[0] if tasks and self.chance(0.7) else None
                    prog = self.pick(programs)
                    conn = None
                    p_in = [x for x in prog["vars"] if x["class"] == "VAR_INPUT" and x["kind"] == "elem"]
                    if p_in and self.feature("progconf-connections", 0.15):
                        conn = "%s := 1" % p_in[0]["name"]
                    progs.append([self.fresh("inst"), t, prog["name"]] + ([conn] if conn else []))
                # qualifier is per block: split constant and plain globals into blocks when rendering
                decls.append({"k": "config", "name": self.fresh("Config"), "resource": self.fresh("res"),
                              "globals": globals_ if ci == 0 else copy.deepcopy(globals_), "tasks": tasks, "programs": progs})
        return decls

    # ------------------------------------------------------------ POUs
    def pou(self, kind, types, fbs, functions, globals_):
        r = self.rng
        name = self.fresh("Fb" if kind == "fb" else "Prog")
        self.cur_locals = {g["name"] for g in globals_}
        vars_ = []
        scalars = []          # names of elementary variables usable in expressions / as targets
        for cls in ["VAR_INPUT", "VAR_OUTPUT", "VAR"]:
            lo = 1 if cls != "VAR" else 2
            if cls != "VAR" and kind == "fb" and self.chance(0.15):
                lo = 0          # a function block without inputs / outputs is valid too
            for _ in range(r.randint(lo, 3) if lo else 0):
                qual = ""
                if cls == "VAR":
                    qual = self.pick(["", "", "RETAIN", "NON_RETAIN"])
                elif self.chance(0.2):
                    qual = self.pick(["RETAIN", "NON_RETAIN"])
                t = self.pick(INTS + ["BOOL"])
                init = self.pick([None, None, "1"])
                if cls == "VAR" and self.chance(0.25):
                    t, init = self.pick([("TIME", "T#1s"), ("TIME", "TIME#250ms"), ("DATE", "D#2020-02-29"),
                                         ("TOD", "TOD#12:30:15"), ("DT", "DT#2021-01-01-00:00:00"), ("REAL", "1.5"),
                                         ("LREAL", "-2.5E3"), ("BOOL", "TRUE"), ("WORD", "16#FF"), ("BYTE", "BYTE#7"),
                                         ("INT", "INT#-5"), ("DINT", "2#1010")])
                v = {"name": self.local("v"), "class": cls, "qual": qual, "type": t,
                     "init": init, "kind": "elem"}
                vars_.append(v)
                scalars.append(v["name"])
        if self.chance(0.4):
            vars_.append({"name": self.local("k"), "class": "VAR", "qual": "CONSTANT", "type": self.pick(INTS),
                          "init": "42", "kind": "elem"})
            scalars_ro = [vars_[-1]["name"]]
        else:
            scalars_ro = []
        if self.chance(0.3):
            # constants of the other elementary kinds, the empty string included
            t, init = self.pick([("STRING", "''"), ("STRING", "'abc'"), ("STRING[%d]" % r.randint(1, 20), "''"),
                                 ("WSTRING", '""'), ("WSTRING", '"x y"'), ("REAL", "0.0"), ("BOOL", "FALSE"),
                                 ("TIME", "T#0s"), ("DATE", "D#1970-01-01"), ("BYTE", "0"), ("INT", "0")])
            vars_.append({"name": self.local("kc"), "class": "VAR", "qual": "CONSTANT", "type": t,
                          "init": init, "kind": "const"})
        if self.chance(0.3):
            vars_.append({"name": self.local("io"), "class": "VAR_IN_OUT", "qual": "", "type": self.pick(INTS),
                          "init": None, "kind": "elem"})
        enum_vars = []
        for e in types["enums"]:
            if self.chance(0.5):
                init = self.pick(e["values"])
                if self.feature("enum-init-typed", 0.2):
                    init = "%s#%s" % (e["name"], init)
                v = {"name": self.local("e"), "class": "VAR", "qual": "", "type": e["name"],
                     "init": init, "kind": "enum", "values": e["values"]}
                vars_.append(v)
                enum_vars.append(v)
        for s in types["structs"]:
            if self.chance(0.4):
                init = None
                simple = [e for e in s["elems"] if e[1] in INTS]
                if simple and self.chance(0.4):
                    init = "(%s)" % ", ".join("%s := %d" % (e[0], r.randint(0, 9)) for e in simple[:2])
                vars_.append({"name": self.local("s"), "class": "VAR", "qual": "", "type": s["name"], "init": init,
                              "kind": "struct", "elems": s["elems"]})
        if self.chance(0.2):
            vals = [self.fresh("iv") for _ in range(r.randint(2, 3))]
            vars_.append({"name": self.local("ie"), "class": "VAR", "qual": "", "type": "(%s)" % ", ".join(vals),
                          "init": self.pick([None, vals[-1]]), "kind": "inline-enum"})
        # a variable of a declared subrange type is answered with P9999 by the analyzer (unsupported): left out
        for a in types["arrays"]:
            if self.chance(0.4):
                vars_.append({"name": self.local("arr"), "class": "VAR", "qual": "", "type": a["name"], "init": None,
                              "kind": "array", "lo": a["lo"], "hi": a["hi"]})
        for s in types["strings"]:
            if self.chance(0.3):
                vars_.append({"name": self.local("str"), "class": "VAR", "qual": "", "type": s["name"], "init": None,
                              "kind": "string"})
        if self.chance(0.3):
            lo = r.randint(0, 2)
            vars_.append({"name": self.local("la"), "class": "VAR", "qual": "",
                          "type": "ARRAY[%d..%d] OF INT" % (lo, lo + r.randint(1, 5)),
                          "init": self.pick([None, None, "[1, 2]", "[2(7)]"]), "kind": "array",
                          "lo": lo, "hi": lo + 1})
        if self.chance(0.3):
            vars_.append({"name": self.local("ls"), "class": "VAR", "qual": "", "type": "STRING[%d]" % r.randint(1, 40),
                          "init": self.pick([None, "'abc'"]), "kind": "string"})
        insts = []
        for fb in fbs:
            if self.chance(0.6):
                init = None
                fb_ins = [x for x in fb["vars"] if x["class"] == "VAR_INPUT" and x["kind"] == "elem"]
                if fb_ins and self.feature("fb-instance-init", 0.15):
                    init = "(%s := 1)" % fb_ins[0]["name"]
                v = {"name": self.local("inst"), "class": "VAR", "qual": "", "type": fb["name"], "init": init,
                     "kind": "fb", "fb": fb["name"]}
                vars_.append(v)
                insts.append((v["name"], fb))
        for g in globals_:
            if self.chance(0.4):
                vars_.append({"name": g["name"], "class": "VAR_EXTERNAL", "qual": g["qual"], "type": g["type"],
                              "init": None, "kind": "elem"})
                if g["qual"] != "CONSTANT":
                    scalars.append(g["name"])
        ext_names = {v["name"] for v in vars_ if v["class"] == "VAR_EXTERNAL"}
        shadow = [g for g in globals_ if g["qual"] != "CONSTANT" and g["name"] not in ext_names]
        if shadow and self.feature("local-const-named-like-global", 0.2):
            # a local constant that merely has the same name as a (non-constant) global used elsewhere
            vars_.append({"name": self.pick(shadow)["name"], "class": "VAR", "qual": "CONSTANT", "type": "INT",
                          "init": "3", "kind": "elem"})
        if kind == "fb" and self.feature("edge-input-used", 0.2):
            vars_.append({"name": self.local("trig"), "class": "VAR_INPUT", "qual": "", "type": "BOOL R_EDGE",
                          "init": None, "kind": "edge"})
            scalars_ro.append(vars_[-1]["name"])
        if kind == "program" and self.chance(0.3):
            vars_.append({"name": self.local("loc"), "class": "VAR", "qual": "", "type": "BOOL", "init": None,
                          "kind": "elem", "at": "%%IX%d.%d" % (r.randint(0, 9), r.randint(0, 7))})
            scalars.append(vars_[-1]["name"])
        d = {"k": kind, "name": name, "vars": vars_}
        if kind == "program" and self.feature("var-access", 0.25):
            # access paths to the program's own variables
            acc = []
            for v in [x for x in vars_ if x["kind"] == "elem" and x["class"] in ("VAR", "VAR_OUTPUT", "VAR_INPUT")
                      and " " not in x["type"] and not x.get("at")][:r.randint(1, 3)]:
                acc.append([self.fresh("acc"), v["name"], v["type"], self.pick(["READ_WRITE", "READ_ONLY", ""])])
            d["access"] = acc
        readable = scalars + scalars_ro
        structs = [v for v in vars_ if v["kind"] == "struct"]
        arrays = [v for v in vars_ if v["kind"] == "array"]
        self.ctx = {"enum_vars": enum_vars, "structs": structs, "arrays": arrays, "functions": functions,
                    "direct": kind == "program"}
        d["body"] = self.body(scalars, readable, insts, r.randint(1, 3))
        if not d["body"]:
            d["body"] = [["assign", scalars[0], "1"]]
        if kind == "fb" and self.chance(0.12):
            # a sequential function chart instead of a statement list
            steps = [self.fresh("step") for _ in range(r.randint(2, 3))]
            act = self.fresh("act")
            lines = ["INITIAL_STEP %s:" % steps[0], "END_STEP"]
            for st in steps[1:]:
                lines += ["STEP %s:" % st, "  %s(%s);" % (act, self.pick(["N", "S", "R", "P"])), "END_STEP"]
            for a_, b_ in zip(steps, steps[1:] + steps[:1]):
                lines += ["TRANSITION FROM %s TO %s" % (a_, b_), "  := %s;" % self.expr(readable, None, 1), "END_TRANSITION"]
            lines += ["ACTION %s:" % act] + render_stmts(self.body(scalars, readable, [], 1)) + ["END_ACTION"]
            d["body"] = [["raw", "\n".join(lines)]]
        return d

    # ------------------------------------------------------------ statements and expressions
    def operand(self, readable, depth):
        r = self.rng
        k = r.randrange(10)
        ctx = getattr(self, "ctx", {})
        if k < 4 and readable:
            return self.pick(readable)
        if k < 6:
            return str(r.randint(0, 99))
        if k == 6 and ctx.get("structs"):
            s = self.pick(ctx["structs"])
            return "%s.%s" % (s["name"], self.pick(s["elems"])[0])
        if k == 7 and ctx.get("arrays"):
            a = self.pick(ctx["arrays"])
            return "%s[%d]" % (a["name"], a["lo"])
        if k == 8 and ctx.get("functions") and depth > 0:
            f = self.pick(ctx["functions"])
            if self.chance(0.4):
                args = ", ".join("%s := %s" % (i_[0], self.expr(readable, readable, 0)) for i_ in f["inputs"])
            else:
                args = ", ".join(self.expr(readable, readable, 0) for _ in f["inputs"])
            return "%s(%s)" % (f["name"], args)
        if k == 9 and ctx.get("direct"):
            return self.pick(["%IW3", "%IX1.2", "%MD10", "%QB7"])
        if k == 9:
            return self.pick(["TRUE", "FALSE", "16#1F", "2#101"])
        return self.pick(readable) if readable else "1"

    def expr(self, readable, _unused, depth):
        if depth <= 0 or self.chance(0.4):
            e = self.operand(readable, depth)
            if self.chance(0.1):
                e = self.pick(["-", "NOT "]) + e
            return e
        op = self.pick(["+", "-", "*", "/", "MOD", "AND", "OR", "XOR", "=", "<>", "<", ">", "<=", ">=", "&"])
        return "(%s %s %s)" % (self.expr(readable, None, depth - 1), op, self.expr(readable, None, depth - 1))

    def body(self, targets, readable, insts, depth, in_loop=False):
        r = self.rng
        out = []
        readable = readable or targets
        for _ in range(r.randint(1, 3)):
            k = r.randrange(12)
            if k < 4 or depth <= 0 and k < 9:
                out.append(["assign", self.pick(targets), self.expr(readable, None, 2)])
            elif k == 4 and getattr(self, "ctx", {}).get("enum_vars"):
                ev = self.pick(self.ctx["enum_vars"])
                out.append(["assign", ev["name"], self.pick(ev["values"])])
            elif k in (5, 3) and insts:
                out.append(self.fbcall(insts, readable, targets))
            elif k == 6 and depth > 0:
                elsifs = [[self.expr(readable, None, 1), self.body(targets, readable, insts, depth - 1, in_loop)]
                          for _ in range(r.choice([0, 0, 1]))]
                els = self.body(targets, readable, insts, depth - 1, in_loop) if self.chance(0.4) else []
                out.append(["if", self.expr(readable, None, 1), self.body(targets, readable, insts, depth - 1, in_loop),
                            elsifs, els])
            elif k == 7 and depth > 0:
                groups = []
                for _ in range(r.randint(1, 3)):
                    labels = []
                    for _ in range(r.randint(1, 2)):
                        a = r.randint(0, 50)
                        labels.append(str(a) if self.chance(0.6) else "%d..%d" % (a, a + r.randint(1, 9)))
                    groups.append([labels, self.body(targets, readable, insts, depth - 1, in_loop)])
                els = self.body(targets, readable, insts, depth - 1, in_loop) if self.chance(0.4) else []
                out.append(["case", self.pick(readable), groups, els])
            elif k == 8 and depth > 0:
                out.append(["for", self.pick(targets), "0", str(r.randint(1, 10)), self.pick([None, "2"]),
                            self.body(targets, readable, insts, depth - 1, True)])
            elif k == 9 and depth > 0:
                out.append(["while", self.expr(readable, None, 1), self.body(targets, readable, insts, depth - 1, True)])
            elif k == 10 and depth > 0:
                out.append(["repeat", self.body(targets, readable, insts, depth - 1, True), self.expr(readable, None, 1)])
            elif k == 11 and in_loop:
                out.append(["exit"])
            else:
                out.append(["assign", self.pick(targets), self.expr(readable, None, 1)])
        return out

    def out_target(self, targets):
        """Where an output of an invocation is stored: a variable, an array element (constant, variable or computed
        subscript) or a structure member."""
        ctx = getattr(self, "ctx", {})
        k = self.rng.randrange(6)
        if k == 0 and ctx.get("arrays"):
            a = self.pick(ctx["arrays"])
            sub = self.pick([str(a["lo"]), self.pick(targets), "%s + 1" % self.pick(targets),
                             "-%s" % self.pick(targets), "(%s * 2) - %d" % (self.pick(targets), a["lo"])])
            self.features.add("out-target-array")
            return "%s[%s]" % (a["name"], sub)
        if k == 1 and ctx.get("structs"):
            st = self.pick(ctx["structs"])
            simple = [e for e in st["elems"] if e[1] in INTS]
            if simple:
                self.features.add("out-target-member")
                return "%s.%s" % (st["name"], self.pick(simple)[0])
        return self.pick(targets)

    def fbcall(self, insts, readable, targets):
        inst, fb = self.pick(insts)
        ins = [v for v in fb["vars"] if v["class"] == "VAR_INPUT"]
        outs = [v for v in fb["vars"] if v["class"] == "VAR_OUTPUT"]
        style = self.pick(["formal", "formal", "positional", "empty"])
        args = []
        if style == "formal":
            for v in ins:
                if self.chance(0.7):
                    args.append(["in", v["name"], self.expr(readable, None, 1)])
            for v in outs:
                if self.chance(0.5):
                    args.append(["out", v["name"], self.out_target(targets)])
        elif style == "positional":
            for v in ins:
                args.append(["pos", self.expr(readable, None, 1)])
        return ["fbcall", inst, args, fb["name"]]


# ---------------------------------------------------------------- rendering

def render_var_blocks(vars_):
    out = []
    cur = None
    for v in vars_:
        key = (v["class"], v["qual"], bool(v.get("at")))
        if key != cur:
            if cur is not None:
                out.append("END_VAR")
            out.append(v["class"] + (" " + v["qual"] if v["qual"] else ""))
            cur = key
        at = " AT %s" % v["at"] if v.get("at") else ""
        init = " := %s" % v["init"] if v["init"] is not None else ""
        out.append("  %s%s : %s%s;" % (v["name"], at, v["type"], init))
    if cur is not None:
        out.append("END_VAR")
    return out


def render_stmts(stmts, ind=1):
    pad = "  " * ind
    out = []
    for s in stmts:
        k = s[0]
        if k == "assign":
            out.append("%s%s := %s;" % (pad, s[1], s[2]))
        elif k == "raw":
            out.append(pad + s[1])
        elif k == "fbcall":
            parts = []
            for a in s[2]:
                if a[0] == "in":
                    parts.append("%s := %s" % (a[1], a[2]))
                elif a[0] == "out":
                    parts.append("%s => %s" % (a[1], a[2]))
                else:
                    parts.append(a[1])
            out.append("%s%s(%s);" % (pad, s[1], ", ".join(parts)))
        elif k == "if":
            out.append("%sIF %s THEN" % (pad, s[1]))
            out += render_stmts(s[2], ind + 1)
            for c, b in s[3]:
                out.append("%sELSIF %s THEN" % (pad, c))
                out += render_stmts(b, ind + 1)
            if s[4]:
                out.append(pad + "ELSE")
                out += render_stmts(s[4], ind + 1)
            out.append(pad + "END_IF;")
        elif k == "case":
            out.append("%sCASE %s OF" % (pad, s[1]))
            for labels, b in s[2]:
                out.append("%s  %s:" % (pad, ", ".join(labels)))
                out += render_stmts(b, ind + 2)
            if s[3]:
                out.append(pad + "ELSE")
                out += render_stmts(s[3], ind + 1)
            out.append(pad + "END_CASE;")
        elif k == "for":
            by = " BY %s" % s[4] if s[4] else ""
            out.append("%sFOR %s := %s TO %s%s DO" % (pad, s[1], s[2], s[3], by))
            out += render_stmts(s[5], ind + 1)
            out.append(pad + "END_FOR;")
        elif k == "while":
            out.append("%sWHILE %s DO" % (pad, s[1]))
            out += render_stmts(s[2], ind + 1)
            out.append(pad + "END_WHILE;")
        elif k == "repeat":
            out.append(pad + "REPEAT")
            out += render_stmts(s[1], ind + 1)
            out.append("%sUNTIL %s" % (pad, s[2]))
            out.append(pad + "END_REPEAT;")
        elif k == "exit":
            out.append(pad + "EXIT;")
        elif k == "return":
            out.append(pad + "RETURN;")
    return out


def render_decl(d):
    k = d["k"]
    if k == "enum":
        q = d.get("qualified", [])
        dflt = " := %s%s" % (d["name"] + "#" if "default" in q else "", d["values"][d["default"]]) if d.get("default") is not None else ""
        vals = [(d["name"] + "#" if j in q and j < d.get("n_own", len(d["values"])) else "") + v for j, v in enumerate(d["values"])]
        return "TYPE\n  %s : (%s)%s;\nEND_TYPE" % (d["name"], ", ".join(vals), dflt)
    if k == "alias":
        return "TYPE\n  %s : %s;\nEND_TYPE" % (d["name"], d["base"])
    if k == "subrange":
        dflt = " := %d" % d["default"] if d.get("default") is not None else ""
        return "TYPE\n  %s : %s(%d..%d)%s;\nEND_TYPE" % (d["name"], d["base"], d["lo"], d["hi"], dflt)
    if k == "struct":
        body = "\n".join("    %s : %s;" % (n, t) for n, t in d["elems"])
        return "TYPE\n  %s : STRUCT\n%s\n  END_STRUCT;\nEND_TYPE" % (d["name"], body)
    if k == "array":
        return "TYPE\n  %s : ARRAY[%d..%d] OF %s;\nEND_TYPE" % (d["name"], d["lo"], d["hi"], d["elem"])
    if k == "string":
        return "TYPE\n  %s : %s[%d];\nEND_TYPE" % (d["name"], "WSTRING" if d.get("wide") else "STRING", d["len"])
    if k == "raw":
        return d["text"]
    if k == "function":
        lines = ["FUNCTION %s : %s" % (d["name"], d["ret"]), "VAR_INPUT"]
        lines += ["  %s : %s;" % (n, t) for n, t in d["inputs"]]
        lines.append("END_VAR")
        lines += render_stmts(d["body"])
        lines.append("END_FUNCTION")
        return "\n".join(lines)
    if k in ("fb", "program"):
        kw = "FUNCTION_BLOCK" if k == "fb" else "PROGRAM"
        acc = []
        if d.get("access"):
            acc = ["VAR_ACCESS"] + ["  %s : %s : %s%s;" % (a, v, t, (" " + dr) if dr else "") for a, v, t, dr in d["access"]] + ["END_VAR"]
        lines = ["%s %s" % (kw, d["name"])] + render_var_blocks(d["vars"]) + acc + render_stmts(d["body"]) + ["END_" + kw]
        return "\n".join(lines)
    if k == "config":
        lines = ["CONFIGURATION %s" % d["name"]]
        # a VAR_GLOBAL block has one qualifier: the first block wins in the grammar (only one block allowed)
        if d["globals"]:
            quals = []
            for g in d["globals"]:
                if g["qual"] not in quals:
                    quals.append(g["qual"])
            # the grammar allows a single VAR_GLOBAL block per configuration: keep the globals of one qualifier there
            # and put the others into the resource's block
            first = [g for g in d["globals"] if g["qual"] == quals[0]]
            rest = [g for g in d["globals"] if g["qual"] != quals[0]]
            lines += render_var_blocks(first)
        else:
            rest = []
        lines.append("  RESOURCE %s ON PLC" % d["resource"])
        if rest:
            q = rest[0]["qual"]
            lines += ["  " + x for x in render_var_blocks([g for g in rest if g["qual"] == q])]
        for t in d["tasks"]:
            iv = "INTERVAL := %s, " % t[2] if t[2] else ""
            lines.append("    TASK %s(%sPRIORITY := %d);" % (t[0], iv, t[1]))
        for p in d["programs"]:
            w = " WITH %s" % p[1] if p[1] else ""
            conn = " (%s)" % p[3] if len(p) > 3 else ""
            lines.append("    PROGRAM %s%s : %s%s;" % (p[0], w, p[2], conn))
        lines.append("  END_RESOURCE")
        lines.append("END_CONFIGURATION")
        return "\n".join(lines)
    raise AssertionError(k)


OSCAT_TEXTS = ["version 1.0\t1. jan. 2000\nfirst unit of the export", "it's the block's description: 100% free text ?",
               "x := (1 + ;\nEND_TYPE", "caf\u00e9 \u00fc\u20ac units: \u00b0C", "", " "]


def render_unit(decls, oscat=None):
    """oscat: an rng; then the file is written the way an OSCAT export looks: description blocks
    '(*@KEY@:DESCRIPTION*) free text (*@KEY@:END_DESCRIPTION*)' in front of some declarations.  The first block of a
    file carries free text (the preprocessor blanks it), later blocks are empty (only one is blanked per file)."""
    parts = [render_decl(d) for d in decls]
    if oscat is not None and parts and oscat.random() < 0.6:
        n = min(len(parts), oscat.randint(1, 3))
        where = sorted(oscat.sample(range(len(parts)), n))
        for rank, w in enumerate(where):
            body = oscat.choice(OSCAT_TEXTS) if rank == 0 else oscat.choice(["", "\n", " "])
            sep = oscat.choice(["\n", " ", ""])
            parts[w] = "(*@KEY@:DESCRIPTION*)%s%s%s(*@KEY@:END_DESCRIPTION*)\n%s" % (sep, body, sep, parts[w])
    return "\n\n".join(parts) + "\n"


# ---------------------------------------------------------------- fault planters

def walk_stmts(stmts, path=()):
    """Yields (list, index, nesting path) for every statement."""
    for i, s in enumerate(stmts):
        yield stmts, i, path
        k = s[0]
        if k == "if":
            yield from walk_stmts(s[2], path + ("if",))
            for j, (c, b) in enumerate(s[3]):
                yield from walk_stmts(b, path + ("elsif",))
            yield from walk_stmts(s[4], path + ("else",))
        elif k == "case":
            for labels, b in s[2]:
                yield from walk_stmts(b, path + ("case",))
            yield from walk_stmts(s[3], path + ("case-else",))
        elif k == "for":
            yield from walk_stmts(s[5], path + ("for",))
        elif k == "while":
            yield from walk_stmts(s[2], path + ("while",))
        elif k == "repeat":
            yield from walk_stmts(s[1], path + ("repeat",))


def pou_position(decls, i):
    pous = [j for j, d in enumerate(decls) if d["k"] in ("fb", "program", "function")]
    if not pous or i not in pous:
        return "n/a"
    if i == pous[0]:
        return "first-pou"
    if i == pous[-1]:
        return "last-pou"
    return "middle-pou"


def foreign_names(decls, i, kind):
    """Names that other POUs of the unit declare as a variable of this kind and that POU i does not declare (and that
    are not global): 'undeclared here, declared next door'."""
    d = decls[i]
    own = {v["name"] for v in d.get("vars", [])} | {n for n, _t in d.get("inputs", [])} | {d["name"]}
    glob = {g["name"] for c in decls if c["k"] == "config" for g in c["globals"]}
    out = []
    for j, o in enumerate(decls):
        if j == i or o["k"] not in ("fb", "program"):
            continue
        for v in o["vars"]:
            if v["kind"] == kind and v["class"] != "VAR_EXTERNAL" and v["name"] not in own and v["name"] not in glob \
                    and v["name"] not in out:
                out.append(v["name"])
    return out


def plant_all(decls):
    """Every (rule, site) single fault of the unit: yields (code, site description, mutated decls,
    spellings the diagnostic may point at)."""
    for i, d in enumerate(decls):
        k = d["k"]
        pos = pou_position(decls, i)
        if k in ("fb", "program", "function") and not (d["body"] and d["body"][0][0] == "raw"):
            # names that are declared, but in another POU
            fv = foreign_names(decls, i, "elem")
            fi = foreign_names(decls, i, "fb")
            if fv:
                m = copy.deepcopy(decls)
                m[i]["body"].insert(0, ["assign", first_target(d) if k != "function" else d["name"], "(%s + 1)" % fv[0]])
                yield "P0015", "%s:%s:top:rhs-declared-elsewhere" % (k, pos), m, [fv[0]]
            # ... and the name of another POU is not a variable either
            pous = [x["name"] for j2, x in enumerate(decls) if j2 != i and x["k"] in ("fb", "program", "function")]
            for pn in pous[:1] + pous[-1:]:
                m = copy.deepcopy(decls)
                m[i]["body"].insert(0, ["assign", first_target(d) if k != "function" else d["name"], pn])
                yield "P0015", "%s:%s:top:rhs-named-like-a-pou" % (k, pos), m, [pn]
            if fi:
                m = copy.deepcopy(decls)
                m[i]["body"].insert(0, ["fbcall", fi[0], [], "?"])
                yield "P0021", "%s:%s:top:instance-declared-elsewhere" % (k, pos), m, [fi[0]]
                m = copy.deepcopy(decls)
                m[i]["body"].append(["fbcall", fi[-1], [], "?"])
                yield "P0021", "%s:%s:end:instance-declared-elsewhere" % (k, pos), m, [fi[-1]]
        if k == "struct" and d["elems"]:
            m = copy.deepcopy(decls)
            m[i]["elems"].append([m[i]["elems"][0][0], "INT"])
            yield "P0003", "struct:%s" % k, m, [d["name"], d["elems"][0][0]]
        if k == "subrange":
            m = copy.deepcopy(decls)
            m[i]["lo"], m[i]["hi"] = d["hi"], d["lo"]
            m[i]["default"] = None
            yield "P0004", "type-subrange", m, [str(d["hi"]), str(d["lo"]), str(abs(d["hi"])), str(abs(d["lo"]))]
        if k == "array":
            m = copy.deepcopy(decls)
            m[i]["lo"], m[i]["hi"] = d["hi"], d["lo"]
            yield "P0004", "type-array-bounds", m, [str(d["hi"]), str(d["lo"])]
            m2 = copy.deepcopy(m)
            m2.insert(0, {"k": "array", "name": "ValidArrayOfSameElement", "lo": 1, "hi": 10, "elem": d["elem"]})
            yield "P0004", "type-array-bounds-after-valid-array-of-same-element", m2, [str(d["hi"]), str(d["lo"])]
        if k == "enum":
            m = copy.deepcopy(decls)
            m[i]["values"].append(m[i]["values"][0])
            yield "P0005", "type-enum", m, [d["values"][0]]
            # the same value three and four times, in other letter cases: every diagnostic names the FIRST spelling
            m = copy.deepcopy(decls)
            v0 = d["values"][0]
            m[i]["values"] += [v0.upper(), v0.swapcase(), v0]
            yield "P0005", "type-enum-repeated", m, [v0]
            # the same value once plainly and once with the type's name in front, in both orders
            m = copy.deepcopy(decls)
            m[i]["n_own"] = len(d["values"])
            m[i]["values"].append("%s#%s" % (d["name"], d["values"][0]))
            yield "P0005", "type-enum-qualified-duplicate", m, [d["values"][0], d["name"]]
            m = copy.deepcopy(decls)
            m[i]["n_own"] = len(d["values"])
            m[i]["qualified"] = [len(d["values"]) - 1]
            m[i]["values"].append(d["values"][-1])
            yield "P0005", "type-enum-duplicate-of-qualified", m, [d["values"][-1], d["name"]]
        if k == "config":
            for j, p in enumerate(d["programs"]):
                m = copy.deepcopy(decls)
                m[i]["programs"][j][1] = "NoSuchTask"
                yield "P0011", "progconf%d" % j, m, ["NoSuchTask"]
                mine = {t[0] for t in d["tasks"]}
                for i2, d2 in enumerate(decls):
                    other = [t[0] for t in d2.get("tasks", []) if t[0] not in mine] if d2["k"] == "config" and i2 != i else []
                    if other:
                        # a task that exists, but in another configuration's resource
                        m = copy.deepcopy(decls)
                        m[i]["programs"][j][1] = other[0]
                        yield "P0011", "progconf%d-task-of-%s-config" % (j, "later" if i2 > i else "earlier"), m, [other[0]]
        if k == "function":
            for lst, idx, path in walk_stmts(d["body"]):
                st = lst[idx]
                nest = "/".join(path) or "top"
                if st[0] == "assign":
                    m = copy.deepcopy(decls)
                    for l2, i2, p2 in walk_stmts(m[i]["body"]):
                        if p2 == path and l2[i2] == st:
                            l2[i2][2] = "(undeclaredVar + 1)"
                            break
                    yield "P0015", "function:%s:%s:rhs" % (pos, nest), m, ["undeclaredVar"]
        if k in ("fb", "program"):
            # declarations
            for j, v in enumerate(d["vars"]):
                blk = "%s.%s" % (v["class"], v["qual"] or "plain")
                if v["kind"] == "enum":
                    m = copy.deepcopy(decls)
                    m[i]["vars"][j]["type"] = "NoSuchEnum"
                    yield "P0012", "%s:%s:%s" % (k, pos, blk), m, ["NoSuchEnum"]
                    m = copy.deepcopy(decls)
                    m[i]["vars"][j]["init"] = "NoSuchValue"
                    yield "P0014", "%s:%s:%s" % (k, pos, blk), m, ["NoSuchValue"]
                    others = [x for x in decls if x["k"] == "enum" and not set(x["values"]) & set(v.get("values", []))]
                    if others:
                        # a value of ANOTHER enumeration, spelled with that enumeration's name in front: declared, but
                        # not a value of this variable's type
                        m = copy.deepcopy(decls)
                        m[i]["vars"][j]["init"] = "%s#%s" % (others[0]["name"], others[0]["values"][0])
                        yield "P0014", "%s:%s:%s:value-of-other-enumeration" % (k, pos, blk), m, [others[0]["values"][0], others[0]["name"]]
                if v["kind"] == "inline-enum":
                    # an enumeration declared with the variable: a value listed twice, an initial value that is not listed
                    vals_ = v["type"].strip("()").split(", ")
                    m = copy.deepcopy(decls)
                    m[i]["vars"][j]["type"] = "(%s)" % ", ".join(vals_ + [vals_[0]])
                    yield "P0005", "%s:%s:inline-enumeration" % (k, pos), m, [vals_[0]]
                    m = copy.deepcopy(decls)
                    m[i]["vars"][j]["init"] = "NoSuchValue"
                    yield "P0014", "%s:%s:inline-enumeration" % (k, pos), m, ["NoSuchValue"]
                if v["kind"] == "array" and v["type"].startswith("ARRAY["):
                    m = copy.deepcopy(decls)
                    m[i]["vars"][j]["type"] = _re.sub(r"ARRAY\[(\d+)\.\.(\d+)\]", lambda mm: "ARRAY[%s..%s]" % (mm.group(2), mm.group(1)),
                                                     v["type"])
                    m[i]["vars"][j]["init"] = None
                    yield "P0004", "%s:%s:var-array-bounds" % (k, pos), m, _re.findall(r"\d+", v["type"]) + [v["name"]]
                    # ... and the same next to a valid array type with the same element type, declared before it
                    elem_ = v["type"].split(" OF ", 1)[1] if " OF " in v["type"] else None
                    if elem_:
                        m2 = copy.deepcopy(m)
                        m2.insert(0, {"k": "array", "name": "ValidArrayOfSameElement", "lo": 1, "hi": 10, "elem": elem_})
                        yield "P0004", "%s:%s:var-array-bounds-after-valid-array-of-same-element" % (k, pos), m2, \
                            _re.findall(r"\d+", v["type"]) + [v["name"]]
                if v["kind"] == "elem" and v["class"] in ("VAR", "VAR_INPUT", "VAR_OUTPUT") and not v.get("at") \
                        and v["qual"] != "CONSTANT" and (j + 1 == len(d["vars"]) or
                                                         (d["vars"][j + 1]["class"], d["vars"][j + 1]["qual"]) !=
                                                         (v["class"], v["qual"])):
                    # a new variable of an undeclared type at the end of this block (not used in the body: a use as
                    # assignment target would be answered P9999 before the type is looked up)
                    m = copy.deepcopy(decls)
                    m[i]["vars"].insert(j + 1, {"name": "unusedVar", "class": v["class"], "qual": v["qual"],
                                                "type": "NoSuchType", "init": None, "kind": "elem"})
                    yield "P0022", "%s:%s:%s" % (k, pos, blk), m, ["NoSuchType"]
                if v["kind"] in ("elem", "const") and v["qual"] == "CONSTANT" and v["class"] == "VAR":
                    m = copy.deepcopy(decls)
                    m[i]["vars"][j]["init"] = None
                    yield "P0016", "%s:%s" % (k, pos), m, [v["name"]]
                if v["kind"] == "fb":
                    m = copy.deepcopy(decls)
                    # a constant function block instance, in its own block
                    vv = m[i]["vars"].pop(j)
                    vv["qual"] = "CONSTANT"
                    m[i]["vars"].append(vv)
                    yield "P0017", "%s:%s" % (k, pos), m, [v["name"]]
                    fbd = [x for x in decls if x["k"] == "fb" and x["name"] == v.get("fb")]
                    ins = [x for x in fbd[0]["vars"] if x["class"] == "VAR_INPUT" and x["kind"] == "elem"] if fbd else []
                    if ins:
                        # ... and the same with initial values for the instance's inputs
                        m = copy.deepcopy(decls)
                        vv = m[i]["vars"].pop(j)
                        vv["qual"] = "CONSTANT"
                        vv["init"] = "(%s := 1)" % ins[0]["name"]
                        m[i]["vars"].append(vv)
                        yield "P0017", "%s:%s:with-initial-values" % (k, pos), m, [v["name"]]
                if v["class"] == "VAR_EXTERNAL" and v["qual"] == "CONSTANT":
                    m = copy.deepcopy(decls)
                    vv = m[i]["vars"].pop(j)
                    vv["qual"] = ""
                    m[i]["vars"].append(vv)
                    yield "P0018", "%s:%s" % (k, pos), m, [v["name"]]
                    cfgs = [j2 for j2, x in enumerate(decls) if x["k"] == "config" and
                            any(g["name"] == v["name"] and g["qual"] == "CONSTANT" for g in x["globals"])]
                    if len(cfgs) > 1:
                        # the same name is a plain global in one configuration and a constant one in the other: the external
                        # still refers to a constant global, whichever configuration comes first
                        for which, j2 in (("first", cfgs[0]), ("last", cfgs[-1])):
                            m2 = copy.deepcopy(m)
                            for g in m2[j2]["globals"]:
                                if g["name"] == v["name"]:
                                    g["qual"] = ""
                            yield "P0018", "%s:%s:plain-twin-in-%s-config" % (k, pos, which), m2, [v["name"]]
            # statements
            for lst, idx, path in walk_stmts(d["body"]):
                s = lst[idx]
                nest = "/".join(path) or "top"
                if s[0] == "assign":
                    enum_target = any(v["name"] == s[1] and v["kind"] == "enum" for v in d["vars"])
                    for where in ("target", "rhs-enum-target" if enum_target else "rhs"):
                        m = copy.deepcopy(decls)
                        for l2, i2, p2 in walk_stmts(m[i]["body"]):
                            if p2 == path and l2[i2] == s:
                                if where == "target":
                                    l2[i2][1] = "undeclaredVar"
                                else:
                                    l2[i2][2] = "(undeclaredVar + 1)"
                                break
                        yield "P0015", "%s:%s:%s:%s" % (k, pos, nest, where), m, ["undeclaredVar"]
                if s[0] == "assign" and not any(v["name"] == s[1] and v["kind"] == "enum" for v in d["vars"]):
                    evs = [ev for x in decls if x["k"] == "enum" for ev in x["values"]]
                    local = {v["name"].lower() for v in d["vars"]}
                    evs = [ev for ev in evs if ev.lower() not in local]
                    if evs:
                        # a name that is declared - as a value of some enumeration type - but not as a variable
                        m = copy.deepcopy(decls)
                        for l2, i2, p2 in walk_stmts(m[i]["body"]):
                            if p2 == path and l2[i2] == s:
                                l2[i2][1] = evs[0]
                                break
                        yield "P0015", "%s:%s:%s:target-named-like-an-enumeration-value" % (k, pos, nest), m, [evs[0]]
                if s[0] == "for":
                    m = copy.deepcopy(decls)
                    for l2, i2, p2 in walk_stmts(m[i]["body"]):
                        if p2 == path and l2[i2] == s:
                            l2[i2][1] = "undeclaredVar"
                            break
                    yield "P0015", "%s:%s:%s:for-control" % (k, pos, nest), m, ["undeclaredVar"]
                if s[0] in ("if", "while"):
                    m = copy.deepcopy(decls)
                    for l2, i2, p2 in walk_stmts(m[i]["body"]):
                        if p2 == path and l2[i2] == s:
                            l2[i2][1] = "undeclaredVar > 0"
                            break
                    yield "P0015", "%s:%s:%s:%s-cond" % (k, pos, nest, s[0]), m, ["undeclaredVar"]
                if s[0] == "fbcall":
                    fbname = s[3]
                    fb = next(x for x in decls if x["k"] == "fb" and x["name"] == fbname)
                    ins = [v for v in fb["vars"] if v["class"] == "VAR_INPUT"]
                    outs = [v for v in fb["vars"] if v["class"] == "VAR_OUTPUT"]
                    faults = [
                        ("P0006", [["in", ins[0]["name"], "1"], ["pos", "2"]] if ins else None),
                        ("P0007", [["in", "noSuchInput", "1"]]),
                        ("P0008", [["pos", "1"]] * (len(ins) + 1)),
                        ("P0009", [["out", "noSuchOutput", d["body"] and first_target(d)]]),
                    ]
                    plain_ins = [v_ for v_ in ins if v_["kind"] != "edge"]
                    if plain_ins and len(plain_ins) == len(ins) and outs:
                        # a wrong output name next to inputs that are right: passed by position (right count) and by name
                        faults.append(("P0009", [["pos", "1"]] * len(ins) + [["out", "noSuchOutput", first_target(d)]]))
                        faults.append(("P0009", [["in", v_["name"], "1"] for v_ in ins] + [["out", outs[0]["name"], first_target(d)],
                                                                                        ["out", "noSuchOutput", first_target(d)]]))
                    # the same fault with the other shapes of an output target (the diagnostic prints the target)
                    arrs = [v for v in d["vars"] if v["kind"] == "array"]
                    for a_ in arrs[:1]:
                        for sub in ("%d" % a_["lo"], first_target(d), "%s + 1" % first_target(d), "-%s" % first_target(d)):
                            faults.append(("P0009", [["out", "noSuchOutput", "%s[%s]" % (a_["name"], sub)]]))
                    strs = [v for v in d["vars"] if v["kind"] == "struct"]
                    for s_ in strs[:1]:
                        faults.append(("P0009", [["out", "noSuchOutput", "%s.%s" % (s_["name"], s_["elems"][0][0])]]))
                    for code, args in faults:
                        if args is None:
                            continue
                        m = copy.deepcopy(decls)
                        for l2, i2, p2 in walk_stmts(m[i]["body"]):
                            if p2 == path and l2[i2] == s:
                                l2[i2][2] = args
                                break
                        yield code, "%s:%s:%s" % (k, pos, nest), m, [s[1]]
                    m = copy.deepcopy(decls)
                    for l2, i2, p2 in walk_stmts(m[i]["body"]):
                        if p2 == path and l2[i2] == s:
                            l2[i2][1] = "noSuchInstance"
                            l2[i2][2] = []
                            break
                    yield "P0021", "%s:%s:%s" % (k, pos, nest), m, ["noSuchInstance"]
                    # an undeclared variable that occurs only inside the argument list of the invocation
                    arg_faults = []
                    if ins:
                        arg_faults.append(("in", [["in", ins[0]["name"], "undeclaredVar"]]))
                        arg_faults.append(("in-expr", [["in", ins[0]["name"], "(1 + undeclaredVar)"]]))
                        arg_faults.append(("pos", [["pos", "undeclaredVar"]] + [["pos", "1"]] * (len(ins) - 1)))
                    if outs:
                        arg_faults.append(("out", [["out", outs[0]["name"], "undeclaredVar"]]))
                    for what, args in arg_faults:
                        m = copy.deepcopy(decls)
                        for l2, i2, p2 in walk_stmts(m[i]["body"]):
                            if p2 == path and l2[i2] == s:
                                l2[i2][2] = args
                                break
                        yield "P0015", "%s:%s:%s:fbcall-arg-%s" % (k, pos, nest, what), m, ["undeclaredVar"]


def first_target(d):
    for v in d["vars"]:
        if v["kind"] == "elem" and v["class"] in ("VAR", "VAR_OUTPUT") and v["qual"] != "CONSTANT":
            return v["name"]
    return "x"


import re as _re

_WORD = _re.compile(r"'[^']*'|\"[^\"]*\"|(?<![A-Za-z0-9_#%.])[A-Za-z_][A-Za-z0-9_]*#?")
_KW = None


def recase_identifiers(text, rng, p=0.5):
    """Re-spells identifier occurrences in another letter case (IEC identifiers are case-insensitive); keywords,
    literals (T#.., 16#..), typed-literal prefixes and strings are left alone."""
    global _KW
    if _KW is None:
        import gen
        _KW = set(gen.KEYWORDS) | {"PLC"}

    def sub(m):
        w = m.group(0)
        if w[0] in "'\"#" or w.endswith("#") or w.upper() in _KW:
            return w
        if rng.random() >= p:
            return w
        k = rng.randrange(3)
        return w.upper() if k == 0 else w.lower() if k == 1 else w.swapcase()
    return _WORD.sub(sub, text)
