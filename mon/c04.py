"""C04 - total and terminating: no input crashes or hangs lex, parse, analyse or render.

Refuting events: a panic unwinding out of a stage, death of the probe process while a case is
running (abort, stack overflow, OOM), the PEG step clock (hook) passing the step budget, thread
CPU time passing the CPU budget, ironplcc exiting 101 / by signal.  Wall-clock is only a watchdog:
a firing is inconclusive and the case is re-run alone."""
import os
import re

import core
import hostile

STEP_BUDGET = 300_000_000         # PEG element matches per case (all stages); >= 40x the pinned-tree maximum
CPU_BUDGET_NS = 20_000_000_000    # thread CPU per case


def norm_msg(msg):
    msg = re.sub(r"\d+", "N", msg)
    msg = re.sub(r"'[^']*'", "'_'", msg)
    msg = re.sub(r'"[^"]*"', '"_"', msg)
    return msg[:70]


def crash_sig(panic):
    frame = panic.get("frame") or panic.get("location") or "?"
    f = os.path.basename(frame.split(":")[0])
    return "%s:%s" % (f, norm_msg(panic.get("message", "")))


def judge(res, obs, case, probe=None):
    """Judges one observation of a pipeline case."""
    if obs.get("watchdog"):
        cpu = obs.get("cpu_s")
        if cpu is not None and cpu * 1e9 >= CPU_BUDGET_NS:
            # deterministic criterion: the case consumed more than the CPU budget before the watchdog fired
            res.violation("hang", "cpu-budget", "more than %.0f s of CPU without an answer" % cpu, case)
            return
        # inconclusive: re-run alone with a 10x watchdog; violation only by a deterministic criterion
        if probe is not None and res.counters.get("reruns", 0) < 20:
            res.count("reruns")
            obs2 = probe.run({"op": "pipeline", "text": case["text"], "budget": STEP_BUDGET}, timeout=300.0)
            if not obs2.get("watchdog"):
                return judge(res, obs2, case, None)
        res.inconclusive.append({"why": "watchdog", "case": case})
        return
    if "died" in obs:
        rc = obs["died"].get("returncode")
        res.violation("crash", "process-died:rc=%s" % rc, "probe process died while running the case", case)
        return
    if "panic" in obs:
        p = obs["panic"]
        if "step budget exceeded" in p.get("message", ""):
            res.violation("hang", "step-budget:%s" % p.get("stage"), "more than %d parser steps" % STEP_BUDGET, case)
        else:
            res.violation("crash", crash_sig(p), {"stage": p.get("stage"), "message": p.get("message"),
                                                   "frame": p.get("frame")}, case)
        return
    if obs.get("cpu_ns", 0) > CPU_BUDGET_NS:
        res.violation("hang", "cpu-budget", "cpu %d ns" % obs["cpu_ns"], case)
        return
    res.seen("max_steps_bucket", len(str(obs.get("steps", 0))))


def vunit_case(rng):
    """A valid-by-construction unit with one planted rule fault (drives the analyzer's rules and their diagnostics
    deeper than random text can), sometimes with identifiers re-cased or a token mutation on top."""
    import vgen
    decls = vgen.VGen(rng).unit()
    faults = list(vgen.plant_all(decls))
    if faults and rng.random() < 0.85:
        decls = rng.choice(faults)[2]
    text = vgen.render_unit(decls)
    if rng.random() < 0.3:
        text = vgen.recase_identifiers(text, rng)
    if rng.random() < 0.2:
        toks = hostile.lex(text)
        text = "".join(hostile.mutate(toks, rng, 1))
    if rng.random() < 0.15:
        text = hostile.truncate_with_tail(text, rng)
    return text


def grammar_case(rng):
    """A well-formed library from the grammar-directed generator (every production the parser supports), so that the
    analyzer and the renderer are driven over the whole accepted language, not only over what survives mutation."""
    import gen
    import spell
    g = gen.Gen(rng, depth=rng.randint(1, 4))
    try:
        toks, _nf = g.library(rng.randint(1, 8))
    except gen.Unavailable:
        return "PROGRAM p END_PROGRAM"
    return spell.respell(toks, rng, kwcase=rng.random() < 0.3, idcase=rng.random() < 0.3, trivia=rng.random() < 0.5,
                         endif=True)


def graph_case(rng):
    """Declaration graphs (function block instances, structure members, aliases, array elements) with no, one or
    several cycles, disjoint or connected to each other: what the recursion check and its diagnostic walk over."""
    import c07
    if rng.random() < 0.5:
        n, edges = c07.random_graph(rng)
    else:
        # 2-4 cycles of length 1-4, some of them linked by extra edges (a node of one cycle refers to another cycle)
        edges = set()
        cycles = []
        n = 0
        for _ in range(rng.randint(2, 4)):
            ln = rng.randint(1, 4)
            nodes = list(range(n, n + ln))
            n += ln
            cycles.append(nodes)
            for a, b in zip(nodes, nodes[1:] + nodes[:1]):
                edges.add((a, b))
        for _ in range(rng.randint(0, 4)):
            a, b = rng.sample(range(len(cycles)), 2)
            edges.add((rng.choice(cycles[a]), rng.choice(cycles[b])))
        for _ in range(rng.randint(0, 2)):          # plus a few acyclic hangers-on
            edges.add((n, rng.randrange(n)))
            n += 1
        edges = sorted(edges)
    order = list(range(n))
    rng.shuffle(order)
    kind = rng.choice(["fb", "struct", "mixed", "array", "hetero", "renames"])
    if kind == "renames":
        # types that only rename one another, with and without an initial value (with one the declaration is a simple
        # type declaration, without one an alias), used by variables of a program: resolving a variable's type follows
        # the chain of names, whatever shape it has
        succ = {i: [b for a, b in edges if a == i] for i in range(n)}
        decls = []
        for i in order:
            init = rng.choice(["", " := 1", " := 2", " := TRUE", " := 1.5"])
            if succ[i]:
                decls.append("TYPE N%d : N%d%s; END_TYPE" % (i, rng.choice(succ[i]), init))
            else:
                decls.append("TYPE N%d : %s%s; END_TYPE" % (i, rng.choice(["INT", "BOOL", "REAL", "INT(0..5)", "(a%d, b%d)" % (i, i)]),
                                                           init if rng.random() < 0.5 else ""))
        vars_ = "".join(" v%d : N%d%s;" % (i, i, rng.choice(["", "", " := 1"])) for i in range(n) if rng.random() < 0.8)
        decls.insert(rng.randrange(len(decls) + 1), "PROGRAM user VAR%s x : INT; END_VAR x := 1; END_PROGRAM" % vars_)
        if rng.random() < 0.5:
            decls.insert(rng.randrange(len(decls) + 1), "FUNCTION_BLOCK fbuser VAR_INPUT i0 : N0; END_VAR VAR_OUTPUT o : N%d; END_VAR END_FUNCTION_BLOCK" % (n - 1))
        return "\n".join(decls)
    if kind == "hetero":
        return c07.realise_hetero(n, edges, order, c07.hetero_vector(rng, n, edges))
    return c07.realise(kind, n, edges, order)


def gen_case(rng, i):
    if i % 50 == 49:
        return {"gen": "many", "text": hostile.many_decls_case(rng)}
    if i % 50 in (24, 37):
        return {"gen": "flat", "text": hostile.flat_case(rng)}
    k = i % 9
    if k == 8:
        return {"gen": "graph", "text": graph_case(rng)}
    if k == 7:
        return {"gen": "grammar", "text": grammar_case(rng)}
    if k == 6:
        return {"gen": "vunit", "text": vunit_case(rng)}
    if k == 5:
        return {"gen": "unicode", "text": hostile.unicode_case(rng)}
    if k == 0:
        return {"gen": "bytes", "text": hostile.random_bytes_text(rng)}
    if k == 1:
        return {"gen": "soup", "text": hostile.soup_case(rng)}
    if k == 2:
        name, text = hostile.mutated_fixture(rng)
        return {"gen": "mutant:" + name, "text": text}
    if k == 3:
        return {"gen": "literal", "text": hostile.literal_case(rng)}
    return {"gen": "nesting", "text": hostile.nesting_case(rng)}


def shard(shard, nshards, payload):
    res = core.Result()
    n = payload["n"]
    seed = payload["seed"]
    probe = core.Probe()
    probe.max_watchdogs = None
    max_steps = 0
    try:
        for i in range(shard, n, nshards):
            if res.counters.get("sig:hang:cpu-budget", 0) >= 2:
                res.count("stopped-early-after-hangs")
                break
            rng = core.rng_for(seed, "c04", i)
            case = gen_case(rng, i)
            if len(case["text"].encode("utf-8", "replace")) > 65536:
                continue
            obs = probe.run({"op": "pipeline", "text": case["text"], "budget": STEP_BUDGET}, timeout=25.0)
            res.evaluations += 1
            res.count("gen:" + case["gen"].split(":")[0])
            judge(res, obs, case, probe)
            if "panic" not in obs and "died" not in obs and not obs.get("watchdog"):
                res.distinct.add(core.key_of(case["text"]))
                st = obs.get("steps", 0)
                if st > max_steps:
                    max_steps = st
                out = "parse_ok" if obs.get("parse_ok") else "parse_err"
                res.count("outcome:" + out)
                if obs.get("parse_ok"):
                    res.count("outcome:analyze_" + ("ok" if not obs.get("analyze") else "err"))
                if i < 3 * nshards:
                    res.sample({"gen": case["gen"], "text": case["text"][:200], "steps": st,
                                "parse_ok": obs.get("parse_ok")})
    finally:
        probe.close()
    res.counters["max_steps"] = max_steps
    d = res.to_dict()
    return d


def project_case(res, rng, tmp, i):
    """A compilation set of several files through `check <dir>`: a unit with a planted fault or a same-named twin, its
    declarations spread over files, so that diagnostics (and their secondary labels) cross file boundaries."""
    import shutil
    import vgen
    if rng.random() < 0.25:
        return many_problems_case(res, rng, tmp, i)
    decls = vgen.VGen(rng).unit()
    faults = list(vgen.plant_all(decls))
    what = "valid"
    if faults and rng.random() < 0.7:
        decls = rng.choice(faults)[2]
        what = "fault"
    named = [d for d in decls if d["k"] in ("enum", "struct", "fb", "program", "function")]
    if named and rng.random() < 0.4:
        d = rng.choice(named)
        decls = decls + [{"k": "raw", "text": "FUNCTION_BLOCK %s VAR zz : INT; END_VAR zz := 1; END_FUNCTION_BLOCK" % d["name"]}]
        what += "+twin"
    k = rng.randint(2, 4)
    buckets = [[] for _ in range(k)]
    for dd in decls:
        buckets[rng.randrange(k)].append(dd)
    ddir = os.path.join(tmp, "proj%d" % i)
    os.makedirs(ddir)
    files = []
    for j, b in enumerate(buckets):
        text = vgen.render_unit(b, oscat=rng if rng.random() < 0.3 else None) if b else rng.choice(["", "(* nothing here *)\n"])
        files.append(["p%d.st" % j, text])
        open(os.path.join(ddir, "p%d.st" % j), "w").write(text)
    for args in ([ddir], [os.path.join(ddir, f[0]) for f in reversed(files)]):
        r = core.run_cli(["check"] + args, tmp, timeout=25.0)
        res.evaluations += 1
        res.count("cli:project")
        case = {"gen": "project:" + what, "cli": "check", "files": files}
        if r["watchdog"]:
            if (r.get("cpu_s") or 0) * 1e9 >= CPU_BUDGET_NS:
                res.violation("hang", "cli:cpu-budget", "more than %.0f s of CPU" % r["cpu_s"], case)
            else:
                res.inconclusive.append({"why": "cli watchdog", "case": case})
        elif r["rc"] is None or r["rc"] < 0 or r["rc"] == 101 or r["rc"] >= 128:
            pm = core.cli_panic(r["err"])
            sig = "cli:rc=%s" % r["rc"]
            if pm:
                sig = "%s:%s" % (pm[0], norm_msg(pm[1]))
            res.violation("crash", sig, r["err"][-400:], case)
        else:
            res.distinct.add(core.key_of("project", str(files), len(args)))
    shutil.rmtree(ddir, ignore_errors=True)


def many_problems_case(res, rng, tmp, i):
    """Many problems in one run, from the rules that report all they find (duplicate element, bounds the wrong way round,
    duplicate value, constant without value), in declarations of two or three files that refer to one another, so that
    the problems of the files interleave: 3 ... 90 problems, around every round number."""
    import shutil
    k = rng.choice([1, 2, 5, 6, 7, 8, 10, 11, 16, 21, 22, 30])
    nfiles = rng.choice([2, 2, 3])
    files = [[] for _ in range(nfiles)]
    for n in range(1, k + 1):
        decls = [
            "  point%d : STRUCT\n    x : INT;\n    x : INT;\n  END_STRUCT;" % n,
            "  track%d : ARRAY[9..0] OF point%d;" % (n, n),
            "  plot%d : ARRAY[9..0] OF track%d;" % (n, n),
            "  mode%d : (on%d, off%d, on%d);" % (n, n, n, n),
            "  range%d : INT(%d..0);" % (n, n),
        ]
        for d_ in rng.sample(decls, rng.randint(3, 5)) if n > 1 else decls:
            files[rng.randrange(nfiles)].append(d_)
    ddir = os.path.join(tmp, "many%d" % i)
    os.makedirs(ddir)
    texts = []
    for j, ds in enumerate(files):
        text = ("TYPE\n" + "\n".join(ds) + "\nEND_TYPE\n") if ds else ""
        if j == 0:
            text += "FUNCTION_BLOCK consts%d\nVAR CONSTANT\n%sEND_VAR\nEND_FUNCTION_BLOCK\n" % (
                i, "".join("  c%d : INT;\n" % n for n in range(rng.randint(0, k))))
        texts.append(["m%d.st" % j, text])
        open(os.path.join(ddir, "m%d.st" % j), "w").write(text)
    for args in ([ddir], [os.path.join(ddir, f[0]) for f in reversed(texts)]):
        r = core.run_cli(["check"] + args, tmp, timeout=60.0)
        res.evaluations += 1
        res.count("cli:many-problems")
        case = {"gen": "project:many-problems:%d" % k, "cli": "check", "files": texts}
        if r["watchdog"]:
            if (r.get("cpu_s") or 0) * 1e9 >= CPU_BUDGET_NS:
                res.violation("hang", "cli:cpu-budget", "more than %.0f s of CPU" % r["cpu_s"], case)
            else:
                res.inconclusive.append({"why": "cli watchdog", "case": case})
        elif r["rc"] is None or r["rc"] < 0 or r["rc"] == 101 or r["rc"] >= 128:
            pm = core.cli_panic(r["err"])
            sig = "cli:rc=%s" % r["rc"]
            if pm:
                sig = "%s:%s" % (pm[0], norm_msg(pm[1]))
            res.violation("crash", sig, r["err"][-400:], case)
        else:
            res.distinct.add(core.key_of("many", str(texts), len(args)))
            res.seen("problems_in_one_run", min(200, len(re.findall(r"error\[P", r["err"]))) // 10 * 10)
    shutil.rmtree(ddir, ignore_errors=True)


def cli_shard(shard, nshards, payload):
    """Raw byte files through the real binary: exit 101 / signal = crash."""
    res = core.Result()
    n = payload["n_cli"]
    seed = payload["seed"]
    tmp = core.worker_tmpdir("c04")
    try:
        for i in range(shard, n, nshards):
            rng = core.rng_for(seed, "c04cli", i)
            nflat = 2 * len(hostile.FLAT_KINDS)
            if i >= nflat and i % 2 == 0:
                data = bytes(rng.randrange(256) for _ in range(rng.choice([0, 1, 5, 100, 1500])))
                gen = "rawbytes"
                if rng.random() < 0.4:
                    # a byte order mark in front of bytes that are not text in that encoding (odd length, lone
                    # surrogates, Latin-1 after a UTF-8 mark)
                    data = rng.choice([b"\xef\xbb\xbf", b"\xff\xfe", b"\xfe\xff"]) + \
                        rng.choice([data, b"PROGRAM p (* caf\xe9 *) END_PROGRAM", b"\x00\xd8\x00", b"a", b"\xd8\x00\xd8\x00P\x00"])
                    gen = "rawbytes+bom"
            elif i % 14 == 5 or i < 2 * len(hostile.FLAT_KINDS):
                # every kind of flat-and-long input twice per run (the first 32 cases), and sampled afterwards
                fk = i % len(hostile.FLAT_KINDS) if i < 2 * len(hostile.FLAT_KINDS) else rng.randrange(len(hostile.FLAT_KINDS))
                n_ = rng.choice([3000, 5000, 8000, 12000]) if i < 2 * len(hostile.FLAT_KINDS) else None
                if hostile.FLAT_KINDS[fk] == "invalid-characters" and payload.get("tier") == "quick":
                    n_ = rng.choice([200, 500])      # the long form of this kind is the witness of a recorded finding (25 s per hit)
                data = hostile.flat_case(rng, kind=fk, n=n_).encode("utf-8", "replace")
                gen = "flat." + hostile.FLAT_KINDS[fk]
            else:
                case = gen_case(rng, rng.randrange(1, 5))
                data = case["text"].encode("utf-8", "replace")
                gen = case["gen"]
            if i % 5 == 3 and i >= nflat:
                project_case(res, rng, tmp, i)
                continue
            path = os.path.join(tmp, "f%d.st" % i)
            with open(path, "wb") as f:
                f.write(data)
            if res.counters.get("sig:hang:cli:cpu-budget", 0) >= 2:
                res.count("stopped-early-after-hangs")
                break
            for cmd in ("check", "echo", "tokenize"):
                r = core.run_cli([cmd, path], tmp, timeout=25.0)
                res.evaluations += 1
                res.count("cli:" + cmd)
                case = {"gen": gen, "cli": cmd, "hex": data[:4000].hex()}
                if r["watchdog"]:
                    if (r.get("cpu_s") or 0) * 1e9 >= CPU_BUDGET_NS:
                        res.violation("hang", "cli:cpu-budget" + (":%s:%s" % (cmd, gen) if gen.startswith("flat.") else ""),
                                      "more than %.0f s of CPU" % r["cpu_s"], case)
                    else:
                        res.inconclusive.append({"why": "cli watchdog", "case": case})
                elif r["rc"] is None or r["rc"] < 0 or r["rc"] == 101 or r["rc"] >= 128:
                    pm = core.cli_panic(r["err"])
                    sig = "cli:rc=%s" % r["rc"]
                    if pm:
                        sig = "%s:%s" % (pm[0], norm_msg(pm[1]))
                    res.violation("crash", sig, r["err"][-400:], case)
                else:
                    res.distinct.add(core.key_of(cmd, data))
                    res.count("cli_rc:%s" % r["rc"])
                    if gen.startswith("flat."):
                        res.seen("flat_kinds_through_cli", gen)
            os.unlink(path)
    finally:
        import shutil
        shutil.rmtree(tmp, ignore_errors=True)
    return res.to_dict()


ASAN_BIN = os.path.join(core.TARGET, "asan", "x86_64-unknown-linux-gnu", "debug", "verif-probe")


def build_asan():
    env = core._cargo_env()
    env["RUSTFLAGS"] = "-Zsanitizer=address -Cforce-frame-pointers=yes --cfg ironplc_verif"
    env["CARGO_TARGET_DIR"] = os.path.join(core.TARGET, "asan")
    import subprocess
    p = subprocess.run(["cargo", "+nightly", "build", "--offline", "-q", "--target", "x86_64-unknown-linux-gnu"],
                       cwd=os.path.join(core.VERIF, "probe"), env=env, stdout=subprocess.PIPE, stderr=subprocess.STDOUT, text=True)
    return p.returncode == 0 and os.path.exists(ASAN_BIN), p.stdout[-2000:]


def asan_shard(shard_i, nshards, payload):
    """The token-soup / mutation workload again under an AddressSanitizer build of the probe: a report aborts the
    process (halt_on_error), which the supervisor attributes to the case that was running."""
    res = core.Result()
    env = dict(os.environ, ASAN_OPTIONS="halt_on_error=1:abort_on_error=1:detect_leaks=0")
    probe = core.Probe(binary=ASAN_BIN, env=env)
    probe.max_watchdogs = None
    try:
        for i in range(shard_i, payload["n_asan"], nshards):
            rng = core.rng_for(payload["seed"], "c04asan", i)
            case = gen_case(rng, 1 + i % 4)
            if len(case["text"].encode("utf-8", "replace")) > 65536:
                continue
            obs = probe.run({"op": "pipeline", "text": case["text"], "budget": STEP_BUDGET}, timeout=120.0)
            res.evaluations += 1
            res.count("asan")
            case["gen"] = "asan:" + case["gen"]
            if "died" in obs:
                res.violation("sanitizer", "asan:process-died:rc=%s" % obs["died"].get("returncode"),
                              "AddressSanitizer build of the probe died on this case", case)
            else:
                judge(res, obs, case, None)
                if "panic" not in obs and not obs.get("watchdog"):
                    res.distinct.add(core.key_of("asan", case["text"]))
    finally:
        probe.close()
    return res.to_dict()


def miri_gate(seed, n_cases, res):
    """A small corpus under `cargo +nightly miri run` (UB / invalid pointer use in dependencies' unsafe code reached
    through ironplc), sharded over processes; an 'Undefined Behavior' report or an abnormal exit is a violation."""
    import json as _json
    import subprocess
    rng = core.rng_for(seed, "c04miri")
    cases = []
    for name, text in hostile.fixtures():
        cases.append({"gen": "miri:fixture:" + name, "text": text[:1200]})
    while len(cases) < n_cases:
        c = gen_case(rng, len(cases))
        c["text"] = c["text"][:800]
        c["gen"] = "miri:" + c["gen"]
        cases.append(c)
    cases = cases[:n_cases]
    nshards = core.NCPU
    workdir = core.worker_tmpdir("c04miri")
    env = core._cargo_env()
    env["MIRIFLAGS"] = "-Zmiri-disable-isolation"
    env["CARGO_TARGET_DIR"] = os.path.join(core.TARGET, "miri")
    procs = []
    for s in range(nshards):
        mine = cases[s::nshards]
        path = os.path.join(workdir, "shard%d.jsonl" % s)
        with open(path, "w") as f:
            for j, c in enumerate(mine):
                f.write(_json.dumps({"id": j, "op": "pipeline", "text": c["text"]}) + "\n")
        if s == 0:
            # build once (serialised by cargo's lock anyway)
            subprocess.run(["cargo", "+nightly", "miri", "run", "--offline", "-q"], cwd=os.path.join(core.VERIF, "probe"),
                           env=env, stdin=subprocess.DEVNULL, stdout=subprocess.DEVNULL, stderr=subprocess.DEVNULL)
        procs.append((mine, subprocess.Popen(["cargo", "+nightly", "miri", "run", "--offline", "-q"],
                                             cwd=os.path.join(core.VERIF, "probe"), env=env, stdin=open(path),
                                             stdout=subprocess.PIPE, stderr=subprocess.PIPE, text=True)))
    for mine, p in procs:
        try:
            out, err = p.communicate(timeout=3 * 3600)
        except subprocess.TimeoutExpired:
            p.kill()
            res.inconclusive.append({"why": "miri watchdog", "case": {"n": len(mine)}})
            continue
        done = [l for l in out.splitlines() if l.startswith("{") and '"begin"' not in l]
        res.evaluations += len(done)
        res.counters["miri_cases"] = res.counters.get("miri_cases", 0) + len(done)
        if "Undefined Behavior" in err or "error: unsupported operation" in err:
            k = len(done)
            res.violation("sanitizer", "miri:" + ("ub" if "Undefined Behavior" in err else "unsupported"),
                          err[err.find("error"):][:600], mine[k] if k < len(mine) else {"gen": "miri", "text": ""})
        elif p.returncode != 0 and len(done) < len(mine):
            res.violation("sanitizer", "miri:exit=%s" % p.returncode, err[-600:], mine[len(done)])
        else:
            for c, l in zip(mine, done):
                o = _json.loads(l)
                if "panic" in o:
                    judge(res, o, c, None)
                else:
                    res.distinct.add(core.key_of("miri", c["text"]))
    import shutil
    shutil.rmtree(workdir, ignore_errors=True)


def run(tier, seed):
    core.build_probe()
    core.build_plc()
    n = 24000 if tier == "quick" else 1_000_000
    n_cli = 600 if tier == "quick" else 20000
    parts = core.run_sharded(shard, {"n": n, "seed": seed})
    parts += core.run_sharded(cli_shard, {"n_cli": n_cli, "seed": seed, "tier": tier})
    sanitizers = {"asan": "not run (quick tier)", "miri": "not run (quick tier)"}
    if tier == "thorough":
        ok, log = build_asan()
        if ok:
            parts += core.run_sharded(asan_shard, {"n_asan": 200000, "seed": seed})
            sanitizers["asan"] = "200000 cases under an AddressSanitizer build of the probe"
        else:
            sanitizers["asan"] = "ASan build failed: " + log[-300:]
        mres = core.Result()
        miri_gate(seed, 160, mres)
        parts.append(mres.to_dict())
        sanitizers["miri"] = "%d cases under cargo +nightly miri run" % mres.counters.get("miri_cases", 0)
    parts.append(witnesses().to_dict())
    res = core.Result.merge(parts)
    res.counters["max_steps"] = max([p.get("counters", {}).get("max_steps", 0) for p in parts if p and "counters" in p] or [0])
    extra = {
        "rule": "generated hostile inputs (random bytes, token soup over every token type, fixtures with 1-5 token "
                "mutations, extreme literals at every literal site, nesting 1-12 incl. broken nests) run through "
                "tokenize, parse, analyze, render, re-parse, project.semantic and project.tokenize in the probe, "
                "plus raw byte files and every kind of flat-and-long input (sums of thousands of terms, thousands of statements, branches, labels, values, arguments, one long string or comment, thousands of invalid characters; up to 64 KiB) through ironplcc check/echo/tokenize; distinct = distinct input texts that "
                "completed every stage with a result",
        "assumptions": ["step budget %d parser element matches, CPU budget %d ns per case" % (STEP_BUDGET, CPU_BUDGET_NS),
                        "probe profile: opt-level 1 with overflow checks and debug assertions on"],
        "min_evaluations": 1000,
        "coverage": {"step_budget": STEP_BUDGET, "max_steps_observed": res.counters.get("max_steps", 0),
                     "sanitizers": sanitizers},
    }
    return res, extra


def witnesses():
    """Finding probes: the witness of every finding of this property (open or fixed) is re-run."""
    res = core.Result()
    fs = [f for f in core.load_findings("C04") if f.get("witness")]
    if fs:
        probe = core.Probe()
        probe.max_watchdogs = None
        tmp = None
        for f in fs:
            w = f["witness"]
            text = w["text"] if "text" in w else w["prefix"] + w["unit"] * w["times"] + w["suffix"]
            case = {"gen": "witness:" + f["id"], "text": text}
            obs = probe.run({"op": "pipeline", "text": case["text"], "budget": STEP_BUDGET}, timeout=60.0)
            res.evaluations += 1
            res.count("witness")
            judge(res, obs, case, probe)
            if w.get("cli"):
                # ... and through the real binary, under the same CPU budget
                tmp = tmp or core.worker_tmpdir("c04w")
                path = os.path.join(tmp, "w.st")
                open(path, "w").write(text)
                r = core.run_cli([w["cli"], path], tmp, timeout=25.0)
                res.evaluations += 1
                res.count("witness-cli")
                c2 = {"gen": w.get("gen", "witness"), "cli": w["cli"], "finding": f["id"], "witness": {k: v for k, v in w.items()}}
                if r["watchdog"]:
                    if (r.get("cpu_s") or 0) * 1e9 >= CPU_BUDGET_NS:
                        res.violation("hang", "cli:cpu-budget:%s:%s" % (w["cli"], w.get("gen", "witness")),
                                      "more than %.0f s of CPU" % r["cpu_s"], c2)
                    else:
                        res.inconclusive.append({"why": "cli watchdog", "case": c2})
                elif r["rc"] is None or r["rc"] < 0 or r["rc"] == 101 or r["rc"] >= 128:
                    res.violation("crash", "cli:rc=%s" % r["rc"], r["err"][-400:], c2)
        probe.close()
        if tmp:
            import shutil
            shutil.rmtree(tmp, ignore_errors=True)
    return res


def replay(case):
    core.build_probe()
    c = case["case"]
    res = core.Result()
    if "text" in c:
        probe = core.Probe()
        obs = probe.run({"op": "pipeline", "text": c["text"], "budget": STEP_BUDGET}, timeout=300.0)
        probe.close()
        judge(res, obs, c)
        return (not res.violations), json_short(obs)
    core.build_plc()
    tmp = core.worker_tmpdir("c04r")
    if "files" in c:
        d = os.path.join(tmp, "proj")
        os.makedirs(d, exist_ok=True)
        for n_, t_ in c["files"]:
            open(os.path.join(d, n_), "w").write(t_)
        for _ in range(4):
            r = core.run_cli(["check", d], tmp)
            if r["rc"] is None or r["rc"] < 0 or r["rc"] == 101 or r["rc"] >= 128:
                return False, "rc=%s %s" % (r["rc"], r["err"][-300:])
        return True, "rc=%s" % r["rc"]
    path = os.path.join(tmp, "f.st")
    open(path, "wb").write(bytes.fromhex(c["hex"]))
    r = core.run_cli([c["cli"], path], tmp)
    ok = not (r["rc"] is None or r["rc"] < 0 or r["rc"] == 101 or r["rc"] >= 128)
    return ok, "rc=%s %s" % (r["rc"], r["err"][-300:])


def json_short(o):
    import json
    return json.dumps(o)[:600]
