import sys, json, collections, random
sys.path.insert(0, '/verif/mon')
import core, gen, spell, norm
core.build_probe()
p = core.Probe()
N = int(sys.argv[1]) if len(sys.argv) > 1 else 2000
avoid = set(sys.argv[2].split(",")) if len(sys.argv) > 2 and sys.argv[2] else set()
tot = collections.Counter(); bad = collections.Counter()
fails = []
for i in range(N):
    rng = random.Random(i)
    g = gen.Gen(rng, avoid=avoid, depth=2)
    toks, nf = g.library(1)
    text = spell.canonical(toks)
    o = p.run({"op": "parse", "text": text})
    fail = None
    if "panic" in o or "died" in o:
        fail = "PANIC"
    elif not o.get("ok"):
        d = o["diag"]; fail = "REJECT " + text[max(0, d["primary"]["start"] - 30):d["primary"]["end"] + 15]
    else:
        try:
            obs = norm.library(o["dump"], o["addrs"]); exp = norm.normalize_expected(nf)
            d = norm.diff(exp, obs)
            if d is None and sorted(g.addrs) != sorted([list(a) for a in o["addrs"]]):
                d = ("addrs", g.addrs, o["addrs"])
            if d: fail = "DIFF %s exp=%s obs=%s" % (d[0], json.dumps(d[1])[:50], json.dumps(d[2])[:50])
        except norm.NormError as e:
            fail = "NORMERR " + str(e)[:80]
    for a in g.atoms:
        tot[a] += 1
        if fail: bad[a] += 1
    if fail: fails.append((sorted(g.atoms), fail, text))
print("fail", len(fails), "of", N)
rates = sorted(((bad[a] / tot[a], tot[a], a) for a in tot if bad[a]), reverse=True)
for r, t, a in rates[:45]:
    print("%.2f %4d %s" % (r, t, a))
# greedy explanation: atoms with rate 1.0
full = {a for r, t, a in rates if r >= 0.999}
rest = [f for f in fails if not (set(f[0]) & full)]
print("unexplained by always-failing atoms:", len(rest))
for f in rest[:int(sys.argv[3]) if len(sys.argv) > 3 else 12]:
    print("  ", f[1][:160].replace("\n", " "))
