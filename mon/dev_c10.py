import sys, json, collections, random, re
sys.path.insert(0, '/verif/mon')
import core, gen, spell, norm
from c01 import known_bad_atoms
core.build_probe()
p = core.Probe()
N = int(sys.argv[1]) if len(sys.argv) > 1 else 2000
avoid = known_bad_atoms("C01") | (set(sys.argv[2].split(",")) if len(sys.argv) > 2 and sys.argv[2] else set())
tot = collections.Counter(); bad = collections.Counter()
fails = []
for i in range(N):
    rng = random.Random(i)
    g = gen.Gen(rng, avoid=avoid, depth=2)
    toks, nf = g.library(1)
    text = spell.canonical(toks)
    o = p.run({"op": "roundtrip", "text": text})
    fail = None
    if "panic" in o or "died" in o:
        fail = "PANIC " + str(o.get("panic"))[:100]
    elif not o["parse1"].get("ok"):
        continue
    elif not o["render1"]["ok"]:
        fail = "RENDERFAIL " + str(o["render1"])[:100]
    elif not o["parse2"].get("ok"):
        d = o["parse2"]["diag"]; t = o["render1"]["text"]
        fail = "REPARSE " + t[max(0, d["primary"]["start"] - 30):d["primary"]["end"] + 15].replace("\n", " ")
    else:
        n1 = norm.library(o["parse1"]["dump"], o["parse1"]["addrs"]); n2 = norm.library(o["parse2"]["dump"], o["parse2"]["addrs"])
        d = norm.diff(n1, n2)
        if d: fail = "DIFF %s a=%s b=%s" % (re.sub(r"\[\d+\]", "[]", d[0]), json.dumps(d[1])[:50], json.dumps(d[2])[:50])
        elif o["render2"].get("text") != o["render1"]["text"]: fail = "NOTFIX"
    for a in g.atoms:
        tot[a] += 1
        if fail: bad[a] += 1
    if fail: fails.append((sorted(g.atoms), fail, text))
print("fail", len(fails), "of", N)
rates = sorted(((bad[a] / tot[a], tot[a], a) for a in tot if bad[a]), reverse=True)
for r, t, a in rates[:60]:
    print("%.2f %4d %s" % (r, t, a))
full = {a for r, t, a in rates if r >= 0.999}
rest = [f for f in fails if not (set(f[0]) & full)]
print("unexplained by always-failing atoms:", len(rest))
for f in rest[:int(sys.argv[3]) if len(sys.argv) > 3 else 12]:
    print("  ", f[1][:160].replace("\n", " "))
