"""Regenerates /verif/MANIFEST.json from the table below (run after adding a check)."""
import json
import os
import subprocess

VERIF = os.path.dirname(os.path.dirname(os.path.abspath(__file__)))

CHECKS = {
    "C04": dict(
        category="exploration", design_ref="DESIGN.md 4 (C04), 9",
        text="Runtime monitoring of totality: tens of thousands (quick) to a million (thorough) generated hostile "
             "inputs are driven through every stage of the real crates inside a supervised probe process; the "
             "monitors are panic capture, process-death attribution, a hook-driven step clock and a CPU clock, "
             "plus the real binary's exit status and CPU time on raw byte files and on every kind of flat-and-long input up to "
             "64 KiB (sums of thousands of terms, thousands of statements, branches, labels, values, arguments, one long "
             "string or comment, thousands of invalid characters). Exploration is the right level: absence of "
             "crashes is a statement over all inputs that can only be sampled, with the generators aimed at the "
             "input-reachable casts, unwraps and arithmetic found by reading.",
        note="Holds only for the inputs generated; budgets are 3e8 parser steps / 20 s CPU per case; the probe is "
             "built at opt-level 1 with overflow checks and debug assertions (release builds wrap instead of "
             "panicking - the value oracles of C09 cover that side); its case threads get the stack ironplcc gives its worker "
             "thread (1 GiB since 88d4208). No unsafe code in ironplc; Miri/ASan runs "
             "(thorough tier) only reach dependencies.",
        technique="panic/abort/step-clock monitors over generated hostile inputs (probe + CLI exit status)"),
}

CHECKS["C01"] = dict(
    category="exploration", design_ref="DESIGN.md 4 (C01), App. A",
    text="Runtime monitoring of the parser at its public boundary: grammar-directed programs are spelled by a "
         "generator that records, independently of parser.rs, the normal form the library must have; the probe "
         "returns the real library (Debug dump plus visitor-collected addresses) and an offline oracle compares "
         "normal forms node by node. The operator sub-space (all ordered operator pairs x 3 shapes, unary "
         "placements, 343 triples) is enumerated completely against a reference precedence parser; the rest of "
         "the grammar is explored randomly (thousands to 10^5 programs, each in several layouts).",
    note="Normal form deliberately ignores representation choices (DESIGN.md App. A): LateBound vs Variable for a "
         "bare name, which initialiser variant carries a type reference, parentheses, identifier case, spans. "
         "Productions the parser does not implement (IL, VAR_TEMP, several RESOURCEs) are outside the subset and not "
         "generated; whitespace is varied where the canonical spelling has whitespace, and left out next to punctuation. Genuine defects that "
         "are recorded rather than fixed are avoided in 2/3 of the workload (clean subset) and matched by signature "
         "in the rest.",
    technique="generated programs + independent expected-tree oracle (reference precedence parser), monitored at parse_program")

CHECKS["C02"] = dict(
    category="fault_enumeration", design_ref="DESIGN.md 4 (C02)",
    text="Valid-by-construction units are run through the real analyzer and must be accepted; then every documented "
         "rule's fail shape is planted at every applicable site of each unit (declaration, block class and qualifier, "
         "statement nesting position, first/middle/last POU) and the rule's published code must be among the "
         "diagnostics; sampled double faults must be rejected. Fault enumeration is the right level: the rules are a "
         "finite list, the sites of a program are enumerable, and what can go wrong is a rule that stops visiting a "
         "site.",
    note="'Valid' is what the generator constructs (type-correct, fully declared, inside the sub-language the analyzer "
         "does not answer P9999 for); P9999 is counted as unsupported and a run with > 5 % unsupported is inconclusive. "
         "Rule -> code table taken from problem-codes.csv and the rule modules' doc comments.",
    technique="valid-by-construction generator + per-rule fault planters at every site, monitored at analyze()")
CHECKS["C03"] = dict(
    category="fault_enumeration", design_ref="DESIGN.md 4 (C03)",
    text="Each fault kind (lexical error file, syntax error file, every context-free rule fault) is placed among 0-4 "
         "valid companion files and split over 1-3 files in shuffled order; the set must fail and keep the planted code "
         "(monotonicity oracle), observed at FileBackedProject::semantic and at the real `ironplcc check` with files "
         "and with a directory. Every named declaration is given a same-named twin (same / other kind, same file before "
         "/ after, other file) and a duplicate code is required. Hook events of the analyzer stages give a conservation "
         "monitor: names into the topological re-assembly = names out.",
    note="Companions are generated with disjoint name prefixes so they cannot cure an 'undeclared' fault; conservation "
         "is only judged when the re-assembly returned Ok; hash-order diversity comes from real per-thread seeds.",
    technique="fault placement enumeration with monotonicity + duplicate + conservation (hook event) monitors")
CHECKS["C06"] = dict(
    category="exploration", design_ref="DESIGN.md 4 (C06)",
    text="Metamorphic runtime monitor: all variants of one unit (permutation x partition into <= 3 files x file order, "
         "complete for <= 4 declarations, all 120 permutations + all 181 partition/orders for 5, sampled beyond) are "
         "analysed on fresh threads (fresh hash seeds) in process and through the CLI with every argument order, the "
         "directory and repeated runs; verdicts, and for single-fault units code + declaration + offset + spelling, "
         "must agree.",
    note="Exhaustive only for units of <= 4 declarations (reported per run); hash-iteration orders are the ones real "
         "seeds produced (distinct file orders observed are counted through the project hook).",
    technique="metamorphic equality over enumerated permutations/partitions/file orders and fresh hash seeds")
CHECKS["C07"] = dict(
    category="exploration", design_ref="DESIGN.md 4 (C07)",
    text="Every directed graph on <= 3 nodes (quick) / <= 4 nodes (thorough, 65 536 graphs) and random graphs on 5-12 "
         "nodes and linear chains of up to 200 (400) declarations are realised as function-block instance graphs, "
         "structure graphs, mixed alias/structure graphs, array-element graphs and heterogeneous graphs (every node "
         "independently FB / structure / alias / array-of, every reference spelled plainly, with an initial value or "
         "inside an inline array, VAR_EXTERNAL non-edges, names like standard function blocks) with shuffled "
         "declaration order; a reference DFS cycle test decides whether P0010/P0013 must be present.",
    note="Only the presence of the recursion codes is judged. exhaustive=true is set in the evidence only when the "
         "whole <= 4-node space was run (thorough tier).",
    technique="exhaustive small-graph enumeration against a reference cycle detector, monitored at analyze()")
CHECKS["C08"] = dict(
    category="exploration", design_ref="DESIGN.md 4 (C08)",
    text="Metamorphic monitor at parse_program / analyze: a generated program in canonical spelling and re-spellings of "
         "the same token list along one dimension at a time (keyword case, textual-keyword case, identifier case per "
         "occurrence, trivia incl. CRLF/FF/multi-line/star-ended comments at every soft boundary, optional ';' after "
         "END_IF) and all together must give equal normal forms, equal raw dumps (names case-folded, positions blanked, nothing "
         "else normalised: both come from the same parser) and the same verdict; END_IF chains of depth 1-4 with "
         "every subset of semicolons are enumerated.",
    note="Trivia is inserted where the canonical spelling has white space, and white space next to punctuation is also "
         "left out altogether ('x:=-2'); identifiers are compared lower-cased "
         "(IEC identifiers are case-insensitive).",
    technique="metamorphic re-spelling monitor over generated programs")
CHECKS["C09"] = dict(
    category="exploration", design_ref="DESIGN.md 4 (C09)",
    text="A structured literal grid (base x magnitude class x underscore position x sign x type prefix; real whole x "
         "fraction x exponent; duration unit x boundary / fractional value x prefix x sign; every date/time field at 0, "
         "in range, max, max+1, over; strings; address prefix x size x components x digits) is evaluated by a Python "
         "big-integer / Fraction / calendar reference and compared with the constant node of the parsed library, as "
         "initial value and inside an expression; unrepresentable literals must be rejected with a syntax diagnostic.",
    note="Representable = ironplc's own carrier (u128, finite f64, i64 seconds with a u64 numeric part, year 0..9999, "
         "u32 component). Left undecided: real underflow to zero, sub-nanosecond duration fractions, escape decoding.",
    technique="reference-evaluator oracle over a boundary-value literal grid, monitored at parse_program")
CHECKS["C10"] = dict(
    category="exploration", design_ref="DESIGN.md 4 (C10), 7",
    text="Every generated source the parser accepts and the repository's fixtures are rendered, re-parsed, compared by "
         "normal form and rendered again (fixed point). Fifteen renderer defects found this way are repaired; eleven remain "
         "recorded because a repair would change the stored expected outputs of the existing renderer tests; 2/3 of the workload avoids the "
         "constructs involved (any failure there is a violation), the rest must fail only with a recorded signature.",
    note="Equality is judged on the normal form; the known-findings file lists, per defect, the generator atoms and the "
         "fixtures it affects.",
    technique="round-trip (parse-render-parse-render) monitor over generated programs")

CHECKS["C05"] = dict(
    category="exploration", design_ref="DESIGN.md 4 (C05), App. B",
    text="Runtime monitors over the real lexer, parser and analyzer: token tiling / text equality / character "
         "boundaries / line and column against an independent reference computed from the source text; the span and "
         "file id of every identifier reached by a visitor; range, file, boundary and 'covers the spelling the message "
         "is about' for every label of the planted rule faults (the planter registers the spellings); CLI line:col "
         "against the reference.",
    note="Columns are counted in characters (the unit of the positions the CLI prints); a form feed "
         "separates tokens but does not end a line; OSCAT description bodies are exempt from text equality (blanked "
         "by design) but not from tiling. The CLI stage also compares the texts the coloured codespan output "
         "underlines with the label texts seen in process (multi-file diagnostics, twins, repeated values).",
    technique="position oracles (tiling, reference line/col, registered spellings) over generated sources and planted faults")
CHECKS["C11"] = dict(
    category="exploration", design_ref="DESIGN.md 4 (C11)",
    text="Trace monitor on the real `ironplcc lsp --stdio`: every didOpen/didChange must be followed (before a sentinel "
         "response) by exactly one publishDiagnostics for that URI with that version, whose content must be one of the "
         "answers freshly started servers give for the same contents (reference taken 3 times) and equal to what "
         "`ironplcc check` reports for a directory with the same files. Histories over {didOpen, didChange} x 2 URIs x 9 "
         "texts are enumerated (all of length 4 in the thorough tier, a seeded sample of 1 600 of length 3 in the quick "
         "tier), with four version-numbering policies and five URI styles (percent-encoded blanks / non-ASCII, names "
         "differing only in case), plus random and fixed histories with a third, unrelated document, sessions whose documents' "
         "directory is the workspace folder (named plainly or through a symbolic link; what it holds when the server starts "
         "is part of the project) and edits that only add or remove white space at the end of a document.",
    note="Fresh-server and CLI references are themselves executions of the system under test (differential / "
         "metamorphic oracle); a state whose reference is unstable is reported. For `check`, every file section drawn for a "
         "diagnostic counts (a diagnostic with labels in two documents is published to both). P0030 carries no file and is ignored.",
    technique="JSON-RPC trace monitor with fresh-server and CLI differential references over enumerated histories")
CHECKS["C12"] = dict(
    category="exploration", design_ref="DESIGN.md 4 (C12)",
    text="Online trace specification over the stdio frames of the real server under seeded random message sequences "
         "(length <= 60) mixing valid traffic, empty and double content changes, unimplemented requests and "
         "notifications, client responses, cancellations of ids not yet used, parameters of the wrong shape, odd URIs "
         "and hostile / long / deep / cut-off documents: exactly one response per request id by "
         "the shutdown response, none spurious, process alive until exit, status 0 afterwards.",
    note="'Eventually' is decided in bounded form (answered before the shutdown response; the server is single-threaded "
         "and in-order). Watchdog firings are inconclusive unless reproduced 3 times. TSan is not used: ironplc shares "
         "no mutable state with lsp-server's stdio threads.",
    technique="online JSON-RPC trace-specification monitor over random hostile sessions")
CHECKS["C13"] = dict(
    category="exploration", design_ref="DESIGN.md 4 (C13)",
    text="Every invocation of the real binary in the workload (generated valid / faulty file sets as files, permuted, "
         "as a directory, with a duplicated argument or another spelling of a path; missing, dangling, empty inputs; "
         "sweeps over the number of diagnostics (1..1025) and over the byte alignment of a long offending token) is "
         "checked against the contract "
         "exit 0 <=> OK <=> no coded diagnostic; directory vs file list equivalence; echo / tokenize exit status "
         "against the in-process parse / tokenize of each file.",
    note="Sets contain at most one faulty file: with several, every rule still reports its first problem only, and which "
         "one that is depends on the order the files are analysed in (sorted by name since d679530).",
    technique="exit-status / stdout / stderr contract monitor on the real binary")
CHECKS["C14"] = dict(
    category="exploration", design_ref="DESIGN.md 4 (C14)",
    text="Metamorphic monitor across 5 encodings of the same generated text (non-ASCII in comments before code and in "
         "strings, LF/CRLF, non-ASCII tails, OSCAT blocks, banners of characters from the 0x80-0x9F block of Windows-1252) on `check` and `tokenize`, alone, in sets of mixed encodings "
         "and as the library file of an LSP workspace folder; exhaustive byte sweep (256 values x 4 sites x 2 commands) and "
         "random binary files must give a verdict whose positions lie inside the reference-decoded text and never a "
         "crash.",
    note="Reference decoder = BOM sniff, strict UTF-8, else WHATWG windows-1252. valgrind memcheck on the release binary "
         "is part of the thorough tier only.",
    technique="cross-encoding metamorphic monitor + exhaustive byte sweep on the real binary")
CHECKS["C15"] = dict(
    category="exploration", design_ref="DESIGN.md 4 (C15)",
    text="The semanticTokens/full answers of the real server for generated documents (random spellings, comments before "
         "tokens, multi-line / non-ASCII comments, CRLF, after random edit histories, planted invalid characters; documents "
         "known only from the workspace folder, next to entries that cannot be read) are "
         "decoded with the LSP relative encoding and compared with an independent lexical classifier written from "
         "Annex B.1: strictly increasing, each range exactly one lexeme, legend entry allowed for the class, every "
         "identifier and comment present, null for invalid text.",
    note="Character and length are UTF-16 code units (LSP's default position encoding); a form feed separates tokens and does not end a line; "
         "OSCAT description bodies are modelled as blanks.",
    technique="decoded-answer oracle against an independent lexical classifier")

NOT_YET = {}


def main():
    props = [json.loads(l) for l in open(os.path.join(VERIF, "properties.jsonl"))]
    hooks = subprocess.run(["git", "-C", "/repo", "log", "--format=%H %s"], stdout=subprocess.PIPE, text=True).stdout
    hook_commits = [l.split()[0] for l in hooks.splitlines() if " verif hook:" in l]
    checks = []
    na = []
    for p in props:
        pid = p["id"]
        c = CHECKS.get(pid)
        if c is None:
            na.append({"property_id": pid, "reason": NOT_YET.get(pid, "check not built yet (in progress); not claimed")})
            continue
        checks.append({
            "property_id": pid,
            "quick_cmd": "./check %s --tier quick" % pid,
            "thorough_cmd": "./check %s --tier thorough" % pid,
            "evidence_file": "evidence/%s.json" % pid,
            "replay_cmd_template": "./check %s --replay {path}" % pid,
            "engine": "probe+monitors",
            "level_claimed": {"category": c["category"], "text": c["text"], "design_ref": c["design_ref"]},
            "level_note": c["note"],
            "technique": c["technique"],
        })
    m = {
        "version": 1,
        "setup_cmd": "./setup.sh",
        "hooks": {
            "guard": "--cfg ironplc_verif (RUSTFLAGS)",
            "enable": "RUSTFLAGS='--cfg ironplc_verif' cargo build --offline (done by mon/core.py for the probe "
                      "crate in /verif/probe and for the ironplcc binary, target dirs under /verif/target)",
            "baseline_off_cmd": "cd /repo/compiler && cargo test --workspace --no-fail-fast --offline",
            "source_commits": hook_commits,
            "add_only": True,
        },
        "engines": [{
            "name": "probe+monitors", "path": "/verif/check",
            "serves_properties": [c["property_id"] for c in checks],
            "kind_free_text": "runtime monitoring: a Rust probe process linking the real crates (hooks on) and the real "
                              "ironplcc binary are driven by generated workloads; Python oracles judge the recorded "
                              "observations offline",
        }],
        "checks": checks,
        "not_applicable": na,
        "notes": "All checks: exit 0 = held on everything explored, 1 = VIOLATION line(s), 2 = machinery could not "
                 "run or observed too little (inconclusive). VERIF_SEED selects the workload. known_findings.json "
                 "lists genuine defects that are recorded rather than repaired and the ones repaired by fix: commits.",
    }
    with open(os.path.join(VERIF, "MANIFEST.json"), "w") as f:
        json.dump(m, f, indent=1)
    print("MANIFEST.json: %d checks, %d not claimed" % (len(checks), len(na)))


if __name__ == "__main__":
    main()
