"""C11 - LSP diagnostics depend only on current document contents and equal `check`.

For every didOpen / didChange the monitor requires exactly one publishDiagnostics for that URI with
the notification's version before the sentinel response, and compares its content with
 (A) what a freshly started server publishes for that document when it is opened last, after all
     other open documents with their current contents (reference taken 3 times: a state whose
     reference is not stable is itself a report), and
 (B) the codes and start positions `ironplcc check <dir>` reports for the file with that content."""
import itertools
import os
import shutil

import core
import lsp
import vgen

PROP = "C11"
IGNORED_CODES = {"P0030"}      # 'no content': carries no file, cannot be attributed to a document


def texts_for(u, v):
    return [
        "TYPE T_%s : (r_%s, g_%s); END_TYPE\nFUNCTION_BLOCK F_%s\nVAR x : INT; END_VAR\nx := 1;\nEND_FUNCTION_BLOCK\n" % (u, u, u, u),
        "PROGRAM L_%s\nVAR x : INT; END_VAR\n(* Größe *) x := ?;\nEND_PROGRAM\n" % u,
        "PROGRAM S_%s\nVAR s : STRING := 'café €'; x : INT END_VAR\nEND_PROGRAM\n" % u,
        "PROGRAM E_%s\nVAR x : INT; END_VAR\n  (* é日本 *) x := undeclared_%s;\nEND_PROGRAM\n" % (u, u),
        "PROGRAM D_%s\nVAR c : T_%s := r_%s; i : F_%s; END_VAR\ni();\nEND_PROGRAM\n" % (u, v, v, v),
        # both documents declare SharedName, at different lines / columns: one diagnostic with a label in each document
        ("" if u == "a" else "(* é *)\n\n(* padding so that the two documents have different line structure *)\n   ") +
        "TYPE SharedName : (s1_%s, s2_%s); END_TYPE\n" % (u, u),
        # many problems in one document (more than any round number of them)
        "TYPE\n" + "".join("  R_%s_%d : INT(%d..%d);\n" % (u, k, k + 5, k) for k in range(131)) + "END_TYPE\n",
        # texts that are the same in every document (nothing in them names the document)
        "PROGRAM same_text_lex\nVAR x : INT; END_VAR\n  x := ?;\nEND_PROGRAM\n",
        "PROGRAM same_text_syn\nVAR x : INT END_VAR\nEND_PROGRAM\n",
        # a document whose problem is found at the end of the text (the program is never closed), and the same document
        # with nothing but blank lines and blanks added at its end: the end has moved
        "PROGRAM O_%s\nVAR x : INT; END_VAR\nx := 1;\n" % u,
        "PROGRAM O_%s\nVAR x : INT; END_VAR\nx := 1;\n\n\n  \n" % u,
        # two problems of two rules, found in the other order than they stand in the document (the use before the declaration)
        "PROGRAM W_%s\nVAR CONSTANT\n  k_%s : INT;\nEND_VAR\nVAR x : INT; END_VAR\n\n  (* é *) x := undeclared_w_%s;\nEND_PROGRAM\n" % (u, u, u),
        # a problem about the other document's function block (unknown input: labels in both documents) and one of its own
        "PROGRAM X_%s\nVAR i : G_%s; x : INT; END_VAR\n\n\ni(nosuchinput := 1);\n  x := undeclared_x_%s;\nEND_PROGRAM\n" % (u, v, u),
        # the function block the other document may call, and further down a problem of this document's own
        "FUNCTION_BLOCK G_%s\nVAR_INPUT inp : INT; END_VAR\nVAR x : INT; END_VAR\nx := inp;\nEND_FUNCTION_BLOCK\n\n\n\n"
        "PROGRAM Y_%s\nVAR y : INT; END_VAR\n\n\n\n        y := undeclared_y_%s;\nEND_PROGRAM\n" % (u, u, u),
    ]


TEXT_NAMES = ["valid", "lexical", "syntax", "semantic", "depends", "shared", "many", "same-lexical", "same-syntax", "open-end",
              "open-end-blank-lines", "two-rules", "calls-other", "callee-and-own-problem"]


def diag_key(d):
    return (d.get("code"), d["range"]["start"]["line"], d["range"]["start"]["character"])


class World:
    """One directory whose file paths are the URIs' paths, so that FileIds of the CLI and of the
    server coincide."""

    STYLES = {"plain": ("docs", "%s.st"), "space": ("my docs", "prog %s.st"), "nonascii": ("dökü", "café_%s.st"),
              "mixed": ("Docs.v1", "A+%s (copy).ST"), "casetwin": ("twins", "unit.st")}

    def __init__(self, tmp, style="plain", workspace=None):
        """workspace: None (the server is started without a workspace folder), "plain" (the documents' directory is the
        workspace folder: what is on disk there when the server starts is part of the project) or "symlink" (the same,
        and the folder is reached through a symbolic link - the way the client names it is the way its files are named)"""
        import urllib.parse
        self.tmp = tmp
        self.style = style
        self.workspace = workspace
        dname, fpat = self.STYLES[style]
        self.root = os.path.join(tmp, dname)
        if workspace == "symlink":
            real = os.path.join(tmp, "real-" + dname)
            os.makedirs(real, exist_ok=True)
            if not os.path.islink(self.root):
                os.symlink(real, self.root)
        os.makedirs(self.root, exist_ok=True)
        self.fname = {u: fpat % u for u in "abc"} if "%s" in fpat else {"a": fpat, "b": fpat.capitalize(), "c": fpat.upper()}
        # the URI is the percent-encoded path, as editors send it
        self.uris = {u: "file://" + urllib.parse.quote(os.path.join(self.root, self.fname[u])) for u in "abc"}
        self.texts = {"a": texts_for("a", "b"), "b": texts_for("b", "a"), "c": texts_for("c", "c")}
        self.ref_cache = {}
        self.cli_cache = {}

    def step(self, s, op, u, text, version):
        """Sends the notification and a sentinel; returns the publishDiagnostics seen for it."""
        uri = self.uris[u]
        if op == "open":
            s.open(uri, text, version)
        elif op == "change2":
            # two content changes in one notification: with full-document sync the last one is the content
            s.change(uri, ["PROGRAM stale VAR x : INT; END_VAR x := stale_undeclared; END_PROGRAM\n", text], version)
        else:
            s.change(uri, [text], version)
        rid = s.tokens(uri)
        resp, before = s.wait_response(rid, 20.0)
        pubs = [m for m in before if m.get("method") == "textDocument/publishDiagnostics"]
        return resp, pubs

    def write_disk(self, state):
        for f in os.listdir(self.root):
            os.unlink(os.path.join(self.root, f))
        for other, text in state.items():
            open(os.path.join(self.root, self.fname[other]), "w").write(text)

    def session(self):
        return lsp.Session(self.tmp, workspace=self.root if self.workspace else None)

    def reference(self, state, u):
        """state: dict u -> text; the set of answers fresh servers give for document u opened last."""
        key = (tuple(sorted(state.items())), u)
        if key in self.ref_cache:
            return self.ref_cache[key]
        answers = set()
        for _ in range(3):
            if self.workspace:
                self.write_disk(state)      # a fresh server finds the current contents in its workspace folder
            s = self.session()
            v = 1
            for other, text in sorted(state.items()):
                if other != u:
                    self.step(s, "open", other, text, v)
                    v += 1
            resp, pubs = self.step(s, "open", u, state[u], v)
            s.shutdown(5.0)
            s.kill()
            mine = [p for p in pubs if p["params"]["uri"] == self.uris[u]]
            if resp in (None, "timeout") or len(mine) != 1:
                answers.add(("reference-broken", len(mine)))
            else:
                answers.add(tuple(sorted(diag_key(d) for d in mine[0]["params"]["diagnostics"]
                                         if d.get("code") not in IGNORED_CODES)))
        self.ref_cache[key] = answers
        return answers

    def cli(self, state, u):
        key = (tuple(sorted(state.items())), u)
        if key in self.cli_cache:
            return self.cli_cache[key]
        # the CLI must see the same paths: write into the docs directory itself
        self.write_disk(state)
        answers = set()
        for _ in range(3):
            r = core.run_cli(["check", self.root], self.tmp)
            if r["watchdog"] or r["rc"] in (None, 101):
                answers.add(("cli-broken", r["rc"]))
                continue
            mine = []
            for code, msg, sections in core.parse_cli_sections(r["err"]):
                if code in IGNORED_CODES:
                    continue
                # a diagnostic whose labels lie in several files is drawn, and published, once per file
                for path, line, col in sections:
                    if os.path.basename(path) == self.fname[u]:
                        mine.append((code, line - 1, col - 1))
            answers.add(tuple(sorted(mine)))
        self.cli_cache[key] = answers
        return answers


def check_history(world, history, res, tag, versions="increasing", on_disk=None):
    """history: list of (op, u, text index or text).  versions: how the client numbers them - 'increasing' (one
    counter), 'per-document' (each document restarts at 1 when it is opened again, as editors do after a close),
    'constant' (always 1) or 'arbitrary' (any integer, also lower than before)."""
    state = {}
    if world.workspace:
        # on_disk: what the workspace folder holds when the server starts (u -> text): part of the project from the start
        state = dict(on_disk or {})
        world.write_disk(state)
        res.count("workspace:" + world.workspace)
    s = world.session()
    version = 0
    per_doc = {}
    vr = core.rng_for("versions", tag, str(history)[:200])
    ok = True
    closed_once = False
    res.count("versions:" + versions)
    res.count("uri-style:" + world.style)
    try:
        for step_i, (op, u, t) in enumerate(history):
            text = world.texts[u][t] if isinstance(t, int) else t
            if op == "disk":
                # the file appears on disk (saved by another program); it is not an open document
                open(os.path.join(world.root, world.fname[u]), "w").write(text)
                continue
            if op == "close":
                # the document is closed: it is no longer an open document.  What the server knows of it from then on is
                # what its workspace folder held when it started (nothing without a workspace folder)
                s.notify("textDocument/didClose", {"textDocument": {"uri": world.uris[u]}})
                rid_ = s.tokens(world.uris[u])
                s.wait_response(rid_, 20.0)
                if world.workspace and u in (on_disk or {}):
                    state[u] = on_disk[u]
                else:
                    state.pop(u, None)
                closed_once = True
                res.count("closes")
                continue
            if op == "folders":
                # a notification that says nothing about any document
                s.notify("workspace/didChangeWorkspaceFolders", {"event": {"added": [{"uri": "file://" + os.path.join(world.tmp, "elsewhere"),
                                                                                          "name": "elsewhere"}], "removed": []}})
                os.makedirs(os.path.join(world.tmp, "elsewhere"), exist_ok=True)
                rid_ = s.tokens(world.uris[u])
                s.wait_response(rid_, 20.0)
                res.count("workspace-folder-notifications")
                continue
            if op == "tokens":
                # a request about a document, open or not: requests do not change what the server knows
                rid_ = s.tokens(world.uris[u])
                s.wait_response(rid_, 20.0)
                res.count("requests-between-notifications")
                continue
            if versions == "increasing":
                version += 1
            elif versions == "per-document":
                per_doc[u] = 1 if op == "open" else per_doc.get(u, 0) + 1
                version = per_doc[u]
            elif versions == "constant":
                version = 1
            else:
                version = vr.choice([0, 1, 2, 3, 7, 1000000, -1])
            resp, pubs = world.step(s, op, u, text, version)
            state[u] = text
            res.evaluations += 1
            res.count("steps")
            case = {"history": [list(h) for h in history[:step_i + 1]], "tag": tag, "versions": versions,
                    "uri_style": world.style}
            if resp is None or resp == "timeout":
                pm = core.cli_panic(core.ANSI.sub("", s.stderr.decode("utf-8", "replace")))
                if resp == "timeout" and s.p.poll() is None:
                    res.inconclusive.append({"why": "sentinel watchdog", "case": case})
                else:
                    res.violation("server-died", "died:%s" % (pm[1][:40] if pm else "?"), s.stderr[-300:].decode("utf-8", "replace"), case)
                return False
            mine = [p for p in pubs if p["params"]["uri"] == world.uris[u]]
            others = [p for p in pubs if p["params"]["uri"] != world.uris[u]]
            if len(mine) != 1 or others:
                res.violation("publish-count", "publish:%d:%d" % (len(mine), len(others)),
                              {"for_document": len(mine), "for_others": len(others)}, case)
                ok = False
                continue
            if mine[0]["params"].get("version") != version:
                res.violation("wrong-version", "version", {"sent": version, "published": mine[0]["params"].get("version")}, case)
                ok = False
            got = tuple(sorted(diag_key(d) for d in mine[0]["params"]["diagnostics"] if d.get("code") not in IGNORED_CODES))
            # ground truth that needs no reference: a document that cannot be tokenized or parsed is told so, whatever else
            # is open (the references are executions of the same code and would lose the diagnostic in the same way)
            own = {1: "P0031", 2: "P0002", 7: "P0031", 8: "P0002", 9: "P0002", 10: "P0002"}
            for idx_, code_ in own.items():
                if text == world.texts[u][idx_] and not any(d_.get("code") == code_ for d_ in mine[0]["params"]["diagnostics"]):
                    res.violation("differs-from-check", "own-problem-not-reported:%s:%s" % (TEXT_NAMES[idx_], code_),
                                  {"published": got, "state": sorted("%s=%s" % (k, classify(world, k, v)) for k, v in state.items())}, case)
                    ok = False
            names = "+".join(sorted("%s=%s" % (k, classify(world, k, v)) for k, v in state.items())) + \
                (":after-close" if closed_once and not world.workspace else "")
            # ground truth that needs no reference: a diagnostic about SharedName starts where this document spells it
            lines_u = text.split("\n")
            for d_ in mine[0]["params"]["diagnostics"]:
                st_ = d_["range"]["start"]
                if st_["line"] >= len(lines_u) or st_["character"] > len(lines_u[st_["line"]]):
                    res.violation("position-outside-document", "outside:" + names, {"diagnostic": diag_key(d_)}, case)
                    ok = False
                elif d_.get("code") in ("P0019", "P0020") and "SharedName" not in text and \
                        sum(1 for v_ in state.values() if "SharedName" in v_) > 1:
                    res.violation("position-not-at-name", "shared-name-in-unrelated-document:" + names,
                                  {"diagnostic": diag_key(d_)}, case)
                    ok = False
                elif d_.get("code") in ("P0019", "P0020") and "SharedName" in text and \
                        not lines_u[st_["line"]][st_["character"]:].startswith("SharedName"):
                    res.violation("position-not-at-name", "shared-name:" + names,
                                  {"diagnostic": diag_key(d_), "text_there": lines_u[st_["line"]][st_["character"]:][:20]}, case)
                    ok = False
            if sum(1 for v_ in state.values() if "SharedName" in v_) > 1:
                res.count("steps-shared-name-both")
                # both documents are told: the diagnostic is drawn in both files by `check`
                if "SharedName" in text and not any(d_.get("code") in ("P0019", "P0020") for d_ in mine[0]["params"]["diagnostics"]) \
                        and all("SharedName" in v_ or classify(world, k_, v_) == "valid" for k_, v_ in state.items()):
                    res.violation("differs-from-check", "shared-name-not-reported:" + names,
                                  {"published": got}, case)
                    ok = False
                    continue
            ref = world.reference(dict(state), u)
            if len(ref) > 1:
                res.violation("history-dependent", "unstable-reference:" + names,
                              {"answers_of_fresh_servers": sorted(map(str, ref))}, case)
                ok = False
            if got not in ref:
                res.violation("history-dependent", "differs-from-fresh:" + names,
                              {"published": got, "fresh_server": sorted(map(str, ref))}, case)
                ok = False
                continue
            cli = world.cli(dict(state), u)
            if len(cli) > 1:
                res.violation("cli-unstable", "unstable-cli:" + names, {"answers": sorted(map(str, cli))}, case)
                ok = False
            if got not in cli:
                res.violation("differs-from-check", "differs-from-check:" + names,
                              {"published": got, "check": sorted(map(str, cli))}, case)
                ok = False
    finally:
        s.shutdown(5.0)
        s.kill()
    return ok


def diag_sig(d):
    """code and where every label points (file, start, end)"""
    return str((d.get("code"), [(l.get("file"), l.get("start"), l.get("end")) for l in [d.get("primary") or {}] + list(d.get("secondary") or [])]))


def classify(world, u, text):
    try:
        return TEXT_NAMES[world.texts[u].index(text)]
    except ValueError:
        return "gen"


def shard(shard_i, nshards, payload):
    res = core.Result()
    tmp = core.worker_tmpdir("c11")
    world = World(tmp, ["plain", "space", "nonascii", "mixed", "casetwin"][shard_i % 5])
    policies = ["increasing", "per-document", "constant", "arbitrary"]
    try:
        alphabet = [(op, u, t) for op in ("open", "change") for u in ("a", "b") for t in range(len(TEXT_NAMES))]
        seqs = []
        for n in range(1, payload["max_len"] + 1):
            if n < payload["max_len"]:
                continue        # every shorter sequence is a prefix of a maximal one: checked as its steps
            seqs += list(itertools.product(alphabet, repeat=n))
        rng = core.rng_for(payload["seed"], "c11")
        if payload["sample"] and len(seqs) > payload["sample"]:
            rng.shuffle(seqs)
            seqs = seqs[:payload["sample"]]
        for i in range(shard_i, len(seqs), nshards):
            ok = check_history(world, list(seqs[i]), res, "enumerated", policies[(i // nshards) % 4])
            if ok:
                res.distinct.add(core.key_of(seqs[i]))
                if len(res.samples) < 2:
                    res.sample({"history": [[op, u, TEXT_NAMES[t]] for op, u, t in seqs[i]]})
        # three documents: two that share a problem (the same name declared in both) and a third, unrelated one
        three = [
            [("open", "a", 5), ("open", "b", 5), ("open", "c", 0), ("change", "c", 1), ("change", "a", 5), ("change", "b", 5), ("change", "c", 0)],
            [("open", "c", 0), ("open", "a", 5), ("open", "b", 5), ("change", "c", 0), ("change", "c", 2)],
            [("open", "a", 5), ("open", "c", 2), ("open", "b", 5), ("change", "c", 0), ("change", "b", 0), ("change", "c", 0)],
            [("open", "b", 5), ("open", "c", 0), ("open", "a", 5), ("change2", "c", 0), ("open", "c", 1)],
        ]
        three += [
            [("open", "a", 0), ("open", "b", 4), ("folders", "a", 0), ("change", "b", 4), ("change", "a", 0)],
            [("open", "a", 0), ("open", "b", 4), ("close", "a", 0), ("change", "b", 4)],
        ]
        three += [
            [("open", "a", 13), ("open", "b", 12), ("change", "a", 13), ("change", "b", 12), ("change", "a", 11)],
            [("open", "b", 12), ("open", "a", 13), ("open", "c", 11), ("change", "a", 13)],
        ]
        three += [
            [("open", "a", 4), ("disk", "b", 0), ("tokens", "b", 0), ("change", "a", 4), ("change", "a", 3), ("change", "a", 4)],
            [("disk", "b", 0), ("tokens", "b", 0), ("open", "a", 4), ("tokens", "a", 0), ("change", "a", 4)],
            [("open", "a", 4), ("disk", "b", 0), ("tokens", "b", 0), ("open", "b", 1), ("change", "a", 4), ("tokens", "c", 0)],
            [("open", "b", 4), ("disk", "a", 0), ("tokens", "a", 0), ("change", "b", 4)],
        ]
        for j, h in enumerate(three):
            if (j + shard_i) % len(three) < 2 or nshards < len(three):
                ok = check_history(world, h, res, "three-documents", policies[(j + shard_i) % 4])
                res.count("three-document-histories")
                if ok:
                    res.distinct.add(core.key_of("three", j, world.style))
        # the documents' directory as workspace folder (named plainly or through a symbolic link): the files it holds when
        # the server starts belong to the project; opening one of them, editing it, opening a new one
        for wi, wmode in enumerate(["plain", "symlink"]):
            if (shard_i + wi) % 2 and nshards > 1:
                continue
            wtmp = os.path.join(tmp, "ws-%s" % wmode)
            os.makedirs(wtmp, exist_ok=True)
            wworld = World(wtmp, world.style if world.style != "casetwin" else "plain", workspace=wmode)
            wt = wworld.texts
            for hj, (disk, h) in enumerate([
                ({"a": wt["a"][0], "b": wt["b"][4]}, [("open", "b", 4), ("change", "b", 3), ("change", "b", 4), ("open", "a", 0), ("change", "a", 1)]),
                ({"a": wt["a"][0]}, [("open", "b", 4), ("open", "a", 0), ("change", "a", 2), ("change", "a", 0)]),
                ({"a": wt["a"][0], "b": wt["b"][0]}, [("open", "a", 3), ("open", "c", 0), ("change", "a", 0)]),
                ({"a": wt["a"][5], "b": wt["b"][0]}, [("open", "b", 5), ("change", "b", 0), ("open", "a", 5)]),
                # a document of the folder is opened with the text it has on disk and closed again: it is still part of the project
                ({"a": wt["a"][0], "b": wt["b"][4]}, [("open", "a", 0), ("close", "a", 0), ("open", "b", 4), ("change", "b", 4)]),
                ({"a": wt["a"][13], "b": wt["b"][12]}, [("open", "b", 12), ("close", "b", 12), ("open", "a", 13), ("change", "a", 13)]),
                ({"a": wt["a"][0], "b": wt["b"][4]}, [("open", "b", 4), ("folders", "b", 0), ("change", "b", 4), ("open", "a", 0), ("folders", "a", 0), ("change", "b", 4)]),
            ]):
                ok = check_history(wworld, h, res, "workspace-" + wmode, policies[(hj + shard_i) % 4], on_disk=disk)
                res.count("workspace-histories")
                if ok:
                    res.distinct.add(core.key_of("workspace", wmode, hj, wworld.style))
        # random longer histories over generated documents
        for i in range(shard_i, payload["n_random"], nshards):
            rng = core.rng_for(payload["seed"], "c11rand", i)
            docs = {"a": [], "b": []}
            for u, pfx in (("a", "A"), ("b", "B")):
                for k in range(4):
                    g = vgen.VGen(core.rng_for(payload["seed"], "c11doc", i, u, k), prefix=pfx, avoid=payload["avoid"])
                    decls = g.unit(n_types=1, n_fbs=1, n_programs=1, with_config=False, n_functions=0)
                    if k == 3:
                        faults = [f for f in vgen.plant_all(decls) if not f[1].endswith("rhs-enum-target")]
                        if faults:
                            decls = rng.choice(faults)[2]
                    docs[u].append(vgen.render_unit(decls))
                docs[u].append(world.texts[u][rng.choice([1, 2])])
                docs[u].append(world.texts[u][5])
                docs[u].append(world.texts[u][5])
                # the same documents with white space added or removed at their end only
                for base in list(docs[u][:6]):
                    docs[u].append(base + rng.choice(["\n", "\n\n\n", "   ", "\t\n", " \r\n"]))
                    docs[u].append(base.rstrip())
                docs[u].append(world.texts[u][9])
                docs[u].append(world.texts[u][10])
                docs[u].append(world.texts[u][9] + "\n")
                # same-length re-layouts of the documents (a line break moved): positions change, the size does not
                for base in list(docs[u]):
                    k1 = base.find("\n")
                    k2 = base.find(" ", k1 + 40) if k1 >= 0 else -1
                    if k1 > 0 and k2 > 0:
                        docs[u].append(base[:k1] + " " + base[k1 + 1:k2] + "\n" + base[k2 + 1:])
            # a third document that has nothing to do with the other two (valid, or with a lexical / syntax error of its own)
            gc_ = vgen.VGen(core.rng_for(payload["seed"], "c11doc", i, "c"), prefix="Cc", avoid=payload["avoid"])
            docs["c"] = [vgen.render_unit(gc_.unit(n_types=1, n_fbs=1, n_programs=1, with_config=False, n_functions=0)),
                         world.texts["c"][1], world.texts["c"][2], world.texts["c"][0]]
            hist = []
            for _ in range(rng.randint(4, payload["random_len"])):
                u = rng.choice("aabbc")
                hist.append((rng.choice(["open", "change", "change", "change2"]), u, rng.choice(docs[u])))
            ok = check_history(world, hist, res, "random", policies[(i // nshards) % 4])
            if ok:
                res.distinct.add(core.key_of("random", i))
    finally:
        shutil.rmtree(tmp, ignore_errors=True)
    res.counters["reference_states"] = len(world.ref_cache)
    return res.to_dict()


def project_shard(shard_i, nshards, payload):
    """The same history-independence oracle at the Project trait, in process and at scale: after a random sequence
    of change_text_document / semantic / tokenize calls on one FileBackedProject, semantic() must say what a fresh
    project holding the current contents says (verdict and, when the state has at most one faulty file, codes)."""
    res = core.Result()
    probe = core.Probe()
    try:
        for i in range(shard_i, payload["n_project"], nshards):
            rng = core.rng_for(payload["seed"], "c11proj", i)
            names = ["a.st", "b.st", "c.st"]
            docs = {}
            for k, n in enumerate(names):
                g = vgen.VGen(core.rng_for(payload["seed"], "c11pd", i, k), prefix="P%d" % k, avoid=payload["avoid"])
                decls = g.unit(n_types=1, n_fbs=1, n_programs=1, with_config=False, n_functions=0)
                good = vgen.render_unit(decls)
                faults = [f for f in vgen.plant_all(decls) if not f[1].endswith("rhs-enum-target")]
                bad = vgen.render_unit(rng.choice(faults)[2]) if faults else good
                docs[n] = [good, good + "\n\n", bad, "PROGRAM broken%d VAR x : INT END_VAR END_PROGRAM\n" % k,
                           "PROGRAM lex%d VAR x : INT; END_VAR x := ?; END_PROGRAM\n" % k, "", good.replace("\n", "\n\n", 3)]
            state = {}
            ops = []
            for _ in range(rng.randint(3, 25)):
                k = rng.randrange(10)
                n = rng.choice(names)
                if k < 5:
                    t = rng.choice(docs[n])
                    ops.append({"op": "change", "file": n, "text": t})
                    state[n] = t
                elif k < 8:
                    ops.append({"op": "semantic"})
                else:
                    ops.append({"op": "tokenize", "file": n})
            if not state:
                continue
            ops.append({"op": "semantic"})
            obs = probe.run({"op": "project", "ops": ops})
            fresh = probe.run({"op": "project", "ops": [{"op": "change", "file": n, "text": t}
                                                          for n, t in sorted(state.items())] + [{"op": "semantic"}]})
            res.evaluations += 1
            res.count("project-history")
            case = {"ops": ops, "state": state}
            if any(x.get("watchdog") or "died" in x or "panic" in x for x in (obs, fresh)):
                res.violation("crash", "project:crash", (obs.get("panic") or fresh.get("panic")), case)
                continue
            a, b = obs["results"][-1], fresh["results"][-1]
            n_faulty = sum(1 for n, t in state.items() if t not in (docs[n][0], docs[n][1], docs[n][6], ""))
            ca = sorted(d["code"] for d in a.get("diags", []))
            cb = sorted(d["code"] for d in b.get("diags", []))
            if bool(a.get("ok")) != bool(b.get("ok")):
                res.violation("history-dependent", "project:verdict", {"after_history": ca, "fresh": cb}, case)
            elif ca != cb:
                res.violation("history-dependent", "project:codes", {"after_history": ca, "fresh": cb}, case)
            elif sorted(map(diag_sig, a.get("diags", []))) != sorted(map(diag_sig, b.get("diags", []))):
                res.violation("history-dependent", "project:labels", {"after_history": sorted(map(diag_sig, a.get("diags", [])))[:6],
                                                                       "fresh": sorted(map(diag_sig, b.get("diags", [])))[:6]}, case)
            else:
                res.distinct.add(core.key_of("proj", i))
    finally:
        probe.close()
    return res.to_dict()


def run(tier, seed):
    core.build_plc()
    core.build_probe()
    avoid = sorted({a for f in core.load_findings("C02") if f.get("status") == "open" for a in f.get("atoms", [])})
    if tier == "quick":
        payload = {"seed": seed, "avoid": avoid, "max_len": 3, "sample": 1600, "n_random": 32, "random_len": 12}
    else:
        # 36 notifications (2 kinds x 2 documents x 9 texts): all 46 656 sequences of length 3, as prefixes of a seeded
        # sample of 46 656 x 2 sequences of length 4 (the full 1.7 million would take hours)
        payload = {"seed": seed, "avoid": avoid, "max_len": 4, "sample": 93312, "n_random": 600, "random_len": 40}
    parts = core.run_sharded(shard, payload)
    payload["n_project"] = 1500 if tier == "quick" else 60000
    parts += core.run_sharded(project_shard, payload)
    parts.append(witnesses().to_dict())
    res = core.Result.merge(parts)
    total = (4 * len(TEXT_NAMES)) ** payload["max_len"]
    extra = {
        "rule": "notification sequences over {didOpen, didChange} x 2 URIs x 6 texts (valid, lexical error, syntax "
                "error, semantic error, depends-on-other-document, declares-a-name-the-other-document-declares-too): %s of the %d sequences of length %d (every prefix "
                "is checked as a step), one server process per sequence; plus random histories over generated documents; "
                "each step compared with fresh-server references (3 runs each) and with `ironplcc check` on a directory "
                "with the same contents; distinct = distinct sequences every step of which agreed" % (
                    "all" if not payload["sample"] else "a seeded sample of %d" % payload["sample"], total, payload["max_len"]),
        "exhaustive": not payload["sample"],
        "assumptions": ["P0030 ('no content') has no file and is ignored on both sides",
                        "the faulty texts carry non-ASCII characters (BMP only) before the error on the same line: LSP characters "
                        "and the CLI's columns must both count characters"],
        "min_evaluations": 500,
        "coverage": {"reference_states": res.counters.get("reference_states", 0)},
    }
    return res, extra


def witnesses():
    res = core.Result()
    fs = [f for f in core.load_findings(PROP) if f.get("witness")]
    if not fs:
        return res
    tmp = core.worker_tmpdir("c11w")
    world = World(tmp)
    try:
        for f in fs:
            check_history(world, [tuple(h) for h in f["witness"]["history"]], res, "witness:" + f["id"])
    finally:
        shutil.rmtree(tmp, ignore_errors=True)
    return res


def replay(case):
    core.build_plc()
    tmp = core.worker_tmpdir("c11r")
    world = World(tmp, case["case"].get("uri_style", "plain"))
    res = core.Result()
    hist = [tuple(h) for h in case["case"]["history"]]
    ok = check_history(world, hist, res, case["case"].get("tag", "replay"), case["case"].get("versions", "increasing"))
    shutil.rmtree(tmp, ignore_errors=True)
    return ok and not res.violations, str([(v["kind"], v["sig"]) for v in res.violations])[:400]
