//! verif-probe: drives the real ironplc crates and reports observations as
//! newline-delimited JSON.  It never judges; oracles run offline in Python.
//!
//! Protocol: one JSON request per stdin line; for each, a line
//! `{"begin": id}` is written and flushed before the case runs and one
//! observation line `{"id": id, ...}` after.  A death between the two is
//! attributed to that case by the supervisor.
use std::io::{BufRead, Write};
use std::panic::{catch_unwind, AssertUnwindSafe};
use std::sync::Mutex;

use ironplc_analyzer::stages::analyze;
use ironplc_dsl::common::*;
use ironplc_dsl::core::{FileId, Id};
use ironplc_dsl::diagnostic::{Diagnostic, Label};
use ironplc_dsl::time::*;
use ironplc_dsl::visitor::Visitor;
use ironplc_parser::options::ParseOptions;
use ironplc_parser::{parse_program, tokenize_program};
use ironplc_plc2plc::write_to_string;
use ironplcc::project::{FileBackedProject, Project};
use serde_json::{json, Value};

mod dbg;

static LAST_PANIC: Mutex<Option<Value>> = Mutex::new(None);
thread_local! {
    static STAGE: std::cell::RefCell<String> = const { std::cell::RefCell::new(String::new()) };
}

fn set_stage(s: &str) {
    STAGE.with(|x| *x.borrow_mut() = s.to_owned());
}

fn cpu_ns() -> u64 {
    std::fs::read_to_string("/proc/thread-self/schedstat")
        .ok()
        .and_then(|s| s.split_whitespace().next().and_then(|x| x.parse().ok()))
        .unwrap_or(0)
}

#[cfg(ironplc_verif)]
fn hooks_arm(budget: u64) {
    ironplc_dsl::verif::arm(budget);
}
#[cfg(not(ironplc_verif))]
fn hooks_arm(_budget: u64) {}
#[cfg(ironplc_verif)]
fn hooks_ticks() -> u64 {
    ironplc_dsl::verif::ticks()
}
#[cfg(not(ironplc_verif))]
fn hooks_ticks() -> u64 {
    0
}
#[cfg(ironplc_verif)]
fn hooks_drain() -> Value {
    Value::Array(
        ironplc_dsl::verif::drain()
            .into_iter()
            .map(|(k, p)| json!([k, p]))
            .collect(),
    )
}
#[cfg(not(ironplc_verif))]
fn hooks_drain() -> Value {
    json!([])
}

fn label_json(l: &Label) -> Value {
    json!({"file": l.file_id.to_string(), "start": l.location.start, "end": l.location.end, "msg": l.message})
}

fn diag_json(d: &Diagnostic) -> Value {
    json!({
        "code": d.code,
        "desc": d.description(),
        "primary": label_json(&d.primary),
        "secondary": d.secondary.iter().map(label_json).collect::<Vec<_>>(),
    })
}

fn diags_json(ds: &[Diagnostic]) -> Value {
    Value::Array(ds.iter().map(diag_json).collect())
}

#[derive(Default)]
struct Collector {
    ids: Vec<Value>,
    addrs: Vec<Value>,
    durs: Vec<Value>,
    tods: Vec<Value>,
    dates: Vec<Value>,
    dts: Vec<Value>,
}

impl Visitor<()> for Collector {
    type Value = ();
    fn visit_id(&mut self, node: &Id) -> Result<(), ()> {
        self.ids.push(json!([
            node.original,
            node.span.start,
            node.span.end,
            node.span.file_id.to_string()
        ]));
        Ok(())
    }
    fn visit_address_assignment(&mut self, node: &AddressAssignment) -> Result<(), ()> {
        self.addrs.push(json!([
            format!("{:?}", node.location),
            format!("{:?}", node.size),
            node.address
        ]));
        Ok(())
    }
    fn visit_duration_literal(&mut self, node: &DurationLiteral) -> Result<(), ()> {
        self.durs
            .push(json!(node.interval.whole_nanoseconds().to_string()));
        Ok(())
    }
    fn visit_time_of_day_literal(&mut self, node: &TimeOfDayLiteral) -> Result<(), ()> {
        let (h, m, s, u) = node.hmsm();
        self.tods.push(json!([h, m, s, u]));
        Ok(())
    }
    fn visit_date_literal(&mut self, node: &DateLiteral) -> Result<(), ()> {
        let (y, m, d) = node.ymd();
        self.dates.push(json!([y, m, d]));
        Ok(())
    }
    fn visit_date_and_time_literal(&mut self, node: &DateAndTimeLiteral) -> Result<(), ()> {
        let (y, mo, d) = node.ymd();
        let (h, m, s, u) = node.hmsm();
        self.dts.push(json!([y, mo, d, h, m, s, u]));
        Ok(())
    }
}

fn library_json(lib: &Library, want_dump: bool) -> Value {
    let mut c = Collector::default();
    let _ = c.walk(lib);
    let mut v = json!({
        "ids": c.ids, "addrs": c.addrs, "durs": c.durs, "tods": c.tods, "dates": c.dates, "dts": c.dts,
        "n_elements": lib.elements.len(),
    });
    if want_dump {
        v["dump"] = dbg::parse(&format!("{:?}", lib));
    }
    v
}

fn do_tokenize(text: &str, file: &str) -> Value {
    set_stage("tokenize");
    let (tokens, diags) = tokenize_program(text, &FileId::from_string(file), &ParseOptions::default());
    let toks: Vec<Value> = tokens
        .iter()
        .map(|t| {
            json!([
                format!("{:?}", t.token_type),
                t.span.start,
                t.span.end,
                t.line,
                t.col,
                t.text,
                t.span.file_id.to_string()
            ])
        })
        .collect();
    json!({"tokens": toks, "diags": diags_json(&diags)})
}

fn do_parse(text: &str, file: &str, want_dump: bool) -> (Value, Option<Library>) {
    set_stage("parse");
    match parse_program(text, &FileId::from_string(file), &ParseOptions::default()) {
        Ok(lib) => {
            let mut v = library_json(&lib, want_dump);
            v["ok"] = json!(true);
            (v, Some(lib))
        }
        Err(d) => (json!({"ok": false, "diag": diag_json(&d)}), None),
    }
}

fn analyze_result(r: Result<(), Vec<Diagnostic>>) -> Value {
    match r {
        Ok(()) => json!({"ok": true, "diags": []}),
        Err(ds) => json!({"ok": false, "diags": diags_json(&ds)}),
    }
}

fn files_of(req: &Value) -> Vec<(String, String)> {
    req["files"]
        .as_array()
        .map(|a| {
            a.iter()
                .map(|f| {
                    (
                        f[0].as_str().unwrap_or("").to_owned(),
                        f[1].as_str().unwrap_or("").to_owned(),
                    )
                })
                .collect()
        })
        .unwrap_or_default()
}

fn do_analyze(req: &Value) -> Value {
    let files = files_of(req);
    let mut libs = vec![];
    let mut parse = vec![];
    for (name, text) in &files {
        set_stage("parse");
        match parse_program(text, &FileId::from_string(name), &ParseOptions::default()) {
            Ok(lib) => {
                parse.push(json!({"file": name, "ok": true}));
                libs.push(lib);
            }
            Err(d) => parse.push(json!({"file": name, "ok": false, "diag": diag_json(&d)})),
        }
    }
    set_stage("analyze");
    let refs: Vec<&Library> = libs.iter().collect();
    let r = analyze(&refs);
    let mut v = analyze_result(r);
    v["parse"] = Value::Array(parse);
    v
}

fn do_project(req: &Value) -> Value {
    let mut project = FileBackedProject::new();
    let mut results = vec![];
    if let Some(ops) = req["ops"].as_array() {
        for op in ops {
            match op["op"].as_str().unwrap_or("") {
                "change" => {
                    set_stage("project.change");
                    project.change_text_document(
                        &FileId::from_string(op["file"].as_str().unwrap_or("")),
                        op["text"].as_str().unwrap_or("").to_owned(),
                    );
                    results.push(json!({"op": "change"}));
                }
                "semantic" => {
                    set_stage("project.semantic");
                    let r = project.semantic();
                    let mut v = analyze_result(r);
                    v["op"] = json!("semantic");
                    results.push(v);
                }
                "tokenize" => {
                    set_stage("project.tokenize");
                    let (toks, diags) =
                        project.tokenize(&FileId::from_string(op["file"].as_str().unwrap_or("")));
                    results.push(json!({"op": "tokenize", "n_tokens": toks.len(), "diags": diags_json(&diags)}));
                }
                _ => results.push(json!({"op": "?"})),
            }
        }
    }
    json!({"results": results})
}

fn do_roundtrip(text: &str, file: &str, want_dump: bool) -> Value {
    let (p1, lib) = do_parse(text, file, want_dump);
    let mut out = json!({"parse1": p1});
    if let Some(lib) = lib {
        set_stage("render");
        match write_to_string(&lib) {
            Ok(text1) => {
                out["render1"] = json!({"ok": true, "text": text1});
                let (p2, lib2) = do_parse(&text1, file, want_dump);
                out["parse2"] = p2;
                if let Some(lib2) = lib2 {
                    out["equal"] = json!(lib == lib2);
                    set_stage("render2");
                    match write_to_string(&lib2) {
                        Ok(text2) => out["render2"] = json!({"ok": true, "text": text2}),
                        Err(ds) => out["render2"] = json!({"ok": false, "diags": diags_json(&ds)}),
                    }
                }
            }
            Err(ds) => out["render1"] = json!({"ok": false, "diags": diags_json(&ds)}),
        }
    }
    out
}

/// Every stage on one input; used by the totality monitor.
fn do_pipeline(text: &str, file: &str) -> Value {
    let mut out = json!({});
    let t = do_tokenize(text, file);
    out["n_tokens"] = json!(t["tokens"].as_array().map(|a| a.len()).unwrap_or(0));
    out["tok_diags"] = json!(t["diags"].as_array().map(|a| a.len()).unwrap_or(0));
    let (p, lib) = do_parse(text, file, false);
    out["parse_ok"] = p["ok"].clone();
    if let Some(lib) = lib {
        set_stage("analyze");
        let r = analyze(&[&lib]);
        out["analyze"] = json!(match &r {
            Ok(()) => vec![],
            Err(ds) => ds.iter().map(|d| d.code.clone()).collect::<Vec<_>>(),
        });
        set_stage("render");
        match write_to_string(&lib) {
            Ok(text1) => {
                out["render_ok"] = json!(true);
                set_stage("reparse");
                let r2 = parse_program(&text1, &FileId::from_string(file), &ParseOptions::default());
                out["reparse_ok"] = json!(r2.is_ok());
            }
            Err(_) => out["render_ok"] = json!(false),
        }
    }
    set_stage("project");
    let mut project = FileBackedProject::new();
    let fid = FileId::from_string(file);
    project.change_text_document(&fid, text.to_owned());
    let r = project.semantic();
    out["project_ok"] = json!(r.is_ok());
    let (toks, _d) = project.tokenize(&fid);
    out["project_tokens"] = json!(toks.len());
    out
}

fn run_case(req: &Value) -> Value {
    let text = req["text"].as_str().unwrap_or("");
    let file = req["file"].as_str().unwrap_or("probe.st");
    let want_dump = req["dump"].as_bool().unwrap_or(true);
    match req["op"].as_str().unwrap_or("") {
        "tokenize" => do_tokenize(text, file),
        "parse" => do_parse(text, file, want_dump).0,
        "analyze" => do_analyze(req),
        "project" => do_project(req),
        "roundtrip" => do_roundtrip(text, file, want_dump),
        "pipeline" => do_pipeline(text, file),
        "ping" => json!({"pong": true, "hooks": cfg!(ironplc_verif)}),
        other => json!({"error": format!("unknown op {other}")}),
    }
}

fn main() {
    std::panic::set_hook(Box::new(|info| {
        let msg = if let Some(s) = info.payload().downcast_ref::<&str>() {
            s.to_string()
        } else if let Some(s) = info.payload().downcast_ref::<String>() {
            s.clone()
        } else {
            "<non-string panic>".to_owned()
        };
        let loc = info
            .location()
            .map(|l| format!("{}:{}", l.file(), l.line()))
            .unwrap_or_default();
        let bt = std::backtrace::Backtrace::force_capture().to_string();
        let mut frame = String::new();
        for line in bt.lines() {
            let l = line.trim();
            if l.starts_with("at ") && l.contains("/repo/compiler/") {
                frame = l[3..].to_owned();
                break;
            }
        }
        let stage = STAGE.with(|s| s.borrow().clone());
        *LAST_PANIC.lock().unwrap() =
            Some(json!({"message": msg, "location": loc, "frame": frame, "stage": stage}));
    }));

    let stdin = std::io::stdin();
    let stdout = std::io::stdout();
    for line in stdin.lock().lines() {
        let line = match line {
            Ok(l) => l,
            Err(_) => break,
        };
        if line.trim().is_empty() {
            continue;
        }
        let req: Value = match serde_json::from_str(&line) {
            Ok(v) => v,
            Err(e) => {
                let mut o = stdout.lock();
                let _ = writeln!(o, "{}", json!({"id": null, "error": format!("bad request: {e}")}));
                let _ = o.flush();
                continue;
            }
        };
        let id = req["id"].clone();
        {
            let mut o = stdout.lock();
            let _ = writeln!(o, "{}", json!({"begin": id}));
            let _ = o.flush();
        }
        let budget = req["budget"].as_u64().unwrap_or(0);
        // the stack the work gets in ironplcc (plc2x/bin/main.rs, STACK_SIZE since 88d4208; 8 MiB, the main thread's, before)
        let stack = req["stack"].as_u64().unwrap_or(1 << 30) as usize;
        *LAST_PANIC.lock().unwrap() = None;
        let req2 = req.clone();
        let handle = std::thread::Builder::new()
            .stack_size(stack)
            .spawn(move || {
                hooks_arm(budget);
                let c0 = cpu_ns();
                let r = catch_unwind(AssertUnwindSafe(|| run_case(&req2)));
                let cpu = cpu_ns().saturating_sub(c0);
                let steps = hooks_ticks();
                let events = hooks_drain();
                (r.ok(), cpu, steps, events)
            })
            .expect("spawn");
        let (res, cpu, steps, events) = match handle.join() {
            Ok(x) => x,
            Err(_) => (None, 0, 0, json!([])),
        };
        let mut out = match res {
            Some(v) => v,
            None => json!({}),
        };
        if let Some(p) = LAST_PANIC.lock().unwrap().take() {
            out["panic"] = p;
        }
        out["id"] = id;
        out["cpu_ns"] = json!(cpu);
        out["steps"] = json!(steps);
        out["events"] = events;
        let mut o = stdout.lock();
        let _ = writeln!(o, "{}", out);
        let _ = o.flush();
    }
}
