"""C10 - re-rendering round-trips.

Refuting events for an accepted source s: write_to_string fails or panics; the rendered text is
rejected by the parser; it parses to a library whose normal form differs from the first one; or
rendering the re-parsed library gives a different text (not a fixed point)."""
import re

import core
import gen
import hostile
import norm
import spell
from c01 import known_bad_atoms, short

PROP = "C10"


def judge(o):
    """None if the round trip held or the source was not accepted; else (kind, fsig, detail)."""
    if o.get("watchdog"):
        return ("inconclusive", "watchdog", "")
    if "died" in o:
        return ("crash", "process-died", o["died"])
    if "panic" in o:
        p = o["panic"]
        return ("crash", "panic:%s" % p.get("stage"), p)
    p1 = o.get("parse1", {})
    if not p1.get("ok"):
        return ("not-accepted", "", "")
    r1 = o.get("render1", {})
    if not r1.get("ok"):
        return ("render-failed", "render-failed", r1)
    p2 = o.get("parse2", {})
    text = r1["text"]
    if not p2.get("ok"):
        d = p2["diag"]
        lab = d["primary"]
        ctx = " ".join(text[max(0, lab["start"] - 40):lab["end"] + 20].split())
        return ("reparse-rejected", "reparse:" + d["code"], {"near": ctx, "msg": lab["msg"][:160]})
    try:
        n1 = norm.library(p1["dump"], p1.get("addrs"))
        n2 = norm.library(p2["dump"], p2.get("addrs"))
    except norm.NormError as e:
        raise core.MachineryError("normaliser: %s" % e)
    d = norm.diff(n1, n2)
    if d is not None:
        return ("different-library", "diff:" + re.sub(r"\[\d+\]", "[]", d[0]),
                {"path": d[0], "first": short(d[1]), "second": short(d[2])})
    r2 = o.get("render2", {})
    if not r2.get("ok"):
        return ("render-failed", "render2-failed", r2)
    if r2["text"] != text:
        return ("not-fixed-point", "not-fixed-point", {"first": text[:200], "second": r2["text"][:200]})
    return None


def run_one(probe, res, text, atoms, bad, gen_name):
    o = probe.run({"op": "roundtrip", "text": text, "file": "c10.st"})
    res.evaluations += 1
    v = judge(o)
    res.count("gen:" + gen_name)
    if v is None:
        res.count("held")
        res.distinct.add(core.key_of(sorted(atoms)) if atoms else core.key_of(text))
        for a in atoms:
            res.seen("atoms", a)
        return True
    kind, fsig, detail = v
    case = {"text": text, "atoms": sorted(atoms)}
    if kind == "not-accepted":
        res.count("not-accepted")
        return True
    if kind == "inconclusive":
        res.inconclusive.append({"why": fsig, "case": case})
        return True
    b = sorted(a for a in atoms if a in bad)
    res.violation(kind, fsig + "|" + ",".join(b), detail, case)
    return False


def shard(shard_i, nshards, payload):
    res = core.Result()
    seed = payload["seed"]
    bad = set(payload["bad_atoms"])
    bad01 = set(payload["bad_c01"])
    probe = core.Probe()
    try:
        for i in range(shard_i, payload["n"], nshards):
            rng = core.rng_for(seed, "c10", i)
            clean = (i % 3) != 0
            g = gen.Gen(rng, avoid=(bad | bad01) if clean else bad01, depth=rng.randint(1, 4))
            toks, _ = g.library(rng.randint(1, 8) if i % 4 else 1)
            text = spell.canonical(toks) if i % 2 else spell.respell(toks, rng, trivia=True, kwcase=True)
            ok = run_one(probe, res, text, g.atoms, bad, "clean" if clean else "full")
            if ok and clean and len(res.samples) < 2:
                res.sample({"text": text[:300]})
    finally:
        probe.close()
    return res.to_dict()


def run(tier, seed):
    core.build_probe()
    bad = sorted(known_bad_atoms(PROP))
    bad01 = sorted(known_bad_atoms("C01"))
    payload = {"seed": seed, "bad_atoms": bad, "bad_c01": bad01, "n": 6000 if tier == "quick" else 150000}
    parts = core.run_sharded(shard, payload)
    parts.append(witnesses(set(bad)).to_dict())
    res = core.Result.merge(parts)
    extra = {
        "rule": "every generated source the parser accepts (2/3 restricted to constructs without a recorded "
                "renderer defect, 1/3 full language; canonical and re-spelled) is rendered, re-parsed, compared "
                "by normal form and rendered again; the repository's fixtures are included; distinct = distinct "
                "atom sets that round-tripped",
        "assumptions": ["library equality is judged on the normal form (positions, identifier case and the "
                        "representation choices of DESIGN.md App. A ignored)",
                        "atoms with a recorded renderer defect: %s" % ", ".join(bad)],
        "min_evaluations": 500,
        "coverage": {"known_bad_atoms": bad},
    }
    return res, extra


def witnesses(bad):
    res = core.Result()
    probe = core.Probe()
    try:
        # the repository's own fixtures
        for name, text in hostile.fixtures():
            o = probe.run({"op": "roundtrip", "text": text, "file": name})
            res.evaluations += 1
            res.count("fixture")
            v = judge(o)
            if v is None or v[0] in ("not-accepted", "inconclusive"):
                continue
            res.violation(v[0], v[1] + "|fixture:" + name, v[2], {"fixture": name, "text": text, "atoms": []})
        for f in core.load_findings(PROP):
            w = f.get("witness")
            if not w:
                continue
            atoms = w.get("atoms", f.get("atoms", []))
            o = probe.run({"op": "roundtrip", "text": w["text"], "file": "c10.st"})
            res.evaluations += 1
            res.count("witness")
            v = judge(o)
            if v is None:
                continue
            if v[0] == "not-accepted":
                res.violation("witness-not-accepted", "witness:" + f["id"], "the witness source no longer parses",
                              {"text": w["text"], "atoms": atoms})
                continue
            b = sorted(a for a in atoms if a in bad)
            res.violation(v[0], v[1] + "|" + ",".join(b), v[2], {"text": w["text"], "atoms": atoms, "finding": f["id"]})
    finally:
        probe.close()
    return res


def replay(case):
    core.build_probe()
    probe = core.Probe()
    o = probe.run({"op": "roundtrip", "text": case["case"]["text"], "file": "c10.st"})
    probe.close()
    v = judge(o)
    if v is None or v[0] == "not-accepted":
        return True, "held"
    return False, "%s %s %s" % (v[0], v[1], str(v[2])[:300])
