"""Spelling layer: token list -> text.  canonical(): keywords as given (upper case), identifiers as
given, one blank between tokens.  respell(): random letter case per keyword / identifier occurrence,
random trivia at every soft boundary, optional ';' after END_IF."""

TRIVIA = [" ", "  ", "\t", "\n", "\r\n", " \n ", "\n\n", " (* c *) ", "(* c *)", " (* multi\nline *) ",
          "(* ( *)", " (* ) *) ", "(* * *)", " (* a (* b *) ", "(*x*)(*y*)", " (* café ü *) ", "\n\t(* - *)\n",
          " (**) ", "\t \t", "(***)", " (* x **) ", "(* a * b *)", " (*) x *) ",
          " (* mehr\nzeilig ü€ *) ", "   (* ü\r\n é日本 *) ", "\n  (* a\n\n  b é *)"]
TRIVIA_FF = ["\f", " \f "]


def canonical(tokens):
    out = []
    first = True
    for text, kind, tight in tokens:
        if kind == "endif;":
            text = ";"
        if not first and not tight:
            out.append(" ")
        out.append(text)
        first = False
    return "".join(out)


def recase(rng, s):
    m = rng.randrange(4)
    if m == 0:
        return s.upper()
    if m == 1:
        return s.lower()
    if m == 2:
        return s.capitalize()
    return "".join(c.upper() if rng.random() < 0.5 else c.lower() for c in s)


def respell(tokens, rng, kwcase=False, tkwcase=False, idcase=False, trivia=False, endif=False, ff=False,
            offsets=None):
    """Returns the text.  Dimensions can be switched on separately so that a failure names its
    dimension."""
    out = []
    first = True
    pool = TRIVIA + (TRIVIA_FF if ff else [])
    for text, kind, tight in tokens:
        if kind == "endif;":
            # the optional semicolon after END_IF
            if endif and rng.random() < 0.5:
                continue
            text = ";"
            kind = "op"
        if kind == "kw" and kwcase:
            text = recase(rng, text)
        elif kind == "tkw" and tkwcase:
            text = recase(rng, text)
        elif kind == "id" and idcase:
            text = recase(rng, text)
        if not first and not tight:
            if trivia:
                out.append(pool[rng.randrange(len(pool))])
            else:
                out.append(" ")
        elif not first and tight and False:
            pass
        out.append(text)
        first = False
    return "".join(out)
