"""C02 - the check verdict agrees with the documented semantic rules, in both directions.

(a) valid-by-construction units must be accepted (a documented rule's code on one is a violation;
    P9999 = unsupported, counted, not judged);
(b) every single-fault mutant - each rule's documented 'Fails' shape planted at every applicable
    site - must be rejected with that rule's code among the diagnostics;
(c) double-fault mutants must be rejected."""
import core
import vgen

PROP = "C02"
RULE_CODES = {"P0003", "P0004", "P0005", "P0006", "P0007", "P0008", "P0009", "P0010", "P0011", "P0012", "P0013",
              "P0014", "P0015", "P0016", "P0017", "P0018", "P0019", "P0020", "P0021", "P0022"}


def analyze(probe, text):
    obs = probe.run({"op": "analyze", "files": [["c02.st", text]]})
    if obs.get("watchdog"):
        return None, obs
    if "died" in obs or "panic" in obs:
        return "crash", obs
    if not obs["parse"][0]["ok"]:
        return "noparse", obs
    return [d["code"] for d in obs.get("diags", [])], obs


def site_class(site):
    # first-pou / last-pou / nesting are part of the site; the signature keeps the coarse part only
    parts = site.split(":")
    return parts[0] + ("/" + parts[-1] if len(parts) > 3 else "")


def shard(shard_i, nshards, payload):
    res = core.Result()
    seed = payload["seed"]
    probe = core.Probe()
    try:
        for i in range(shard_i, payload["n_units"], nshards):
            rng = core.rng_for(seed, "c02", i)
            g = vgen.VGen(rng, avoid=payload["avoid"] if i % 3 else ())
            decls = g.unit()
            feats = ",".join(sorted(g.features))
            recase = (i % 2 == 1)

            def spell_unit(d_):
                t_ = vgen.render_unit(d_)
                # identifiers are case-insensitive: half of the units are analysed with every identifier occurrence
                # re-spelled in another letter case
                return vgen.recase_identifiers(t_, core.rng_for(seed, "c02case", i, len(t_))) if recase else t_
            text = spell_unit(decls)
            codes, obs = analyze(probe, text)
            res.evaluations += 1
            case = {"text": text, "what": "valid unit"}
            if codes is None:
                res.inconclusive.append({"why": "watchdog", "case": case})
                continue
            if codes == "crash":
                res.violation("crash", "valid:crash", obs.get("panic"), case)
                continue
            if codes == "noparse":
                raise core.MachineryError("V unit does not parse: %s\n%s" % (obs["parse"][0]["diag"]["primary"]["msg"][:200], text[:400]))
            if "P9999" in codes:
                res.unsupported += 1
                continue
            bad = [c for c in codes if c in RULE_CODES]
            if bad:
                # one violation per diagnostic, so that each can be attributed separately
                for dg in obs["diags"]:
                    if dg["code"] in RULE_CODES:
                        lab = dg["primary"]
                        res.violation("rejected-valid", "valid:%s|%s" % (dg["code"], feats),
                                      {"code": dg["code"], "label_text": text[lab["start"]:lab["end"]][:40],
                                       "desc": dg["desc"][:120]}, case)
                continue
            if codes:
                res.violation("rejected-valid", "valid:other:%s" % ",".join(sorted(set(codes))), {"codes": codes}, case)
                continue
            res.count("valid-accepted")
            if len(res.samples) < 1:
                res.sample({"valid_unit": text[:600]})
            # (b) every single fault
            faults = list(vgen.plant_all(decls))
            detected_faults = []
            for code, site, mutant, spellings in faults:
                mtext = spell_unit(mutant)
                mcodes, mobs = analyze(probe, mtext)
                res.evaluations += 1
                res.count("planted:" + code)
                res.seen("sites", code + "@" + site)
                res.seen("site_classes", code + "@" + site_class(site))
                mcase = {"text": mtext, "planted": code, "site": site, "what": "single fault"}
                if mcodes is None:
                    res.inconclusive.append({"why": "watchdog", "case": mcase})
                elif mcodes == "crash":
                    res.violation("crash", "fault:%s:crash" % code, mobs.get("panic"), mcase)
                elif mcodes == "noparse":
                    raise core.MachineryError("mutant does not parse (%s at %s): %s" % (
                        code, site, mobs["parse"][0]["diag"]["primary"]["msg"][:200]))
                elif not mcodes:
                    res.violation("accepted-invalid", "fault:%s:accepted:%s" % (code, site_class(site)),
                                  {"site": site}, mcase)
                elif code not in mcodes:
                    if "P9999" in mcodes and len(set(mcodes)) == 1:
                        res.unsupported += 1
                    else:
                        res.violation("wrong-code", "fault:%s:reported:%s:%s" % (code, ",".join(sorted(set(mcodes))),
                                                                                 site_class(site)),
                                      {"site": site, "codes": mcodes}, mcase)
                else:
                    res.count("detected:" + code)
                    res.distinct.add(core.key_of(code, site))
                    detected_faults.append((code, site, mutant, spellings))
            # (c) double faults: pairs of distinct (rule, site) in distinct declarations, each of which is detected
            # when planted alone (a pair of faults that are both missed alone is the single-fault violation again)
            faults = detected_faults
            if len(faults) >= 2:
                for _ in range(payload["doubles_per_unit"]):
                    a, b = rng.sample(range(len(faults)), 2)
                    fa, fb = faults[a], faults[b]
                    # compose: apply both mutations when they touch different declarations
                    ia = [k for k, (x, y) in enumerate(zip(decls, fa[2])) if x != y] + \
                         ([len(decls)] if len(fa[2]) != len(decls) else [])
                    ib = [k for k, (x, y) in enumerate(zip(decls, fb[2])) if x != y]
                    if not ia or not ib or set(ia) & set(ib):
                        continue
                    if "plain-twin" in fa[1] and "plain-twin" in fb[1]:
                        # each of the two makes the global of one configuration plain: together no constant global is left
                        # and the plain externals are right
                        continue
                    m = list(fa[2])
                    for k in ib:
                        m[k] = fb[2][k]
                    dtext = spell_unit(m)
                    dcodes, dobs = analyze(probe, dtext)
                    res.evaluations += 1
                    res.count("double")
                    dcase = {"text": dtext, "planted": [fa[0], fb[0]], "sites": [fa[1], fb[1]], "what": "double fault"}
                    if dcodes is None:
                        res.inconclusive.append({"why": "watchdog", "case": dcase})
                    elif dcodes == "crash":
                        res.violation("crash", "double:crash", dobs.get("panic"), dcase)
                    elif dcodes == "noparse":
                        continue
                    elif not dcodes:
                        res.violation("accepted-invalid", "double:%s+%s:accepted" % tuple(sorted([fa[0], fb[0]])),
                                      {}, dcase)
                    else:
                        res.distinct.add(core.key_of("double", fa[0], fa[1], fb[0], fb[1]))
    finally:
        probe.close()
    return res.to_dict()


def run(tier, seed):
    core.build_probe()
    avoid = sorted({a for f in core.load_findings(PROP) if f.get("status") == "open" for a in f.get("atoms", [])})
    payload = {"seed": seed, "avoid": avoid, "n_units": 480 if tier == "quick" else 6000,
               "doubles_per_unit": 4 if tier == "quick" else 10}
    parts = core.run_sharded(shard, payload)
    res = core.Result.merge(parts)
    planted = {k[8:]: v for k, v in res.counters.items() if k.startswith("planted:")}
    detected = {k[9:]: v for k, v in res.counters.items() if k.startswith("detected:")}
    extra = {
        "rule": "valid-by-construction units (types, functions, function blocks with nested IF/CASE/FOR/WHILE/REPEAT "
                "bodies and FB calls, programs, configuration with globals/tasks) must be accepted; every documented "
                "rule's fail shape is planted at every applicable site (declaration, block class and qualifier, "
                "statement nesting position, first/middle/last POU) and must be reported with the rule's code; sampled "
                "double faults must be rejected; distinct = distinct (rule, site) pairs detected plus double-fault "
                "pairs rejected",
        "assumptions": ["P9999 (capability not implemented) is outside the property: counted as unsupported",
                        "for double faults only rejection is required"],
        "min_evaluations": 500,
        "coverage": {"planted_per_rule": planted, "detected_per_rule": detected,
                     "valid_units_accepted": res.counters.get("valid-accepted", 0)},
    }
    if res.evaluations and res.unsupported > 0.05 * res.evaluations:
        extra["inconclusive_reason"] = "more than 5%% of the cases were answered P9999 (%d of %d): generator drift" % (
            res.unsupported, res.evaluations)
    return res, extra


def replay(case):
    core.build_probe()
    c = case["case"]
    probe = core.Probe()
    codes, obs = analyze(probe, c["text"])
    probe.close()
    if c.get("what") == "valid unit":
        ok = codes == [] or (isinstance(codes, list) and set(codes) <= {"P9999"})
        return ok, "codes=%s" % (codes,)
    if c.get("what") == "single fault":
        ok = isinstance(codes, list) and c["planted"] in codes
        return ok, "codes=%s planted=%s" % (codes, c["planted"])
    ok = isinstance(codes, list) and len(codes) > 0
    return ok, "codes=%s" % (codes,)
