"""C06 - the result is independent of declaration order, file partition, file order and run.

Metamorphic monitor: every variant of one compilation unit (permutation of its top-level
declarations x partition into files x file insertion order x fresh hash seeds) must give the same
verdict, and for single-fault units the same (code, spelling, declaration, offset inside the
declaration) for the planted fault."""
import copy
import itertools
import os
import shutil

import core
import vgen

PROP = "C06"


def set_partitions(items, max_blocks):
    """All partitions of the list into at most max_blocks non-empty blocks (order inside a block kept)."""
    if not items:
        yield []
        return
    first, rest = items[0], items[1:]
    for p in set_partitions(rest, max_blocks):
        for i in range(len(p)):
            yield p[:i] + [[first] + p[i]] + p[i + 1:]
        if len(p) < max_blocks:
            yield [[first]] + p


def compose(decl_texts, blocks):
    """blocks: list of lists of declaration indices -> files [(name, text)] and a location map."""
    files = []
    where = {}
    for fi, block in enumerate(blocks):
        name = "f%d.st" % fi
        pos = 0
        parts = []
        for di in block:
            t = decl_texts[di]
            where[(name, di)] = pos
            parts.append(t)
            pos += len(t) + 2
        files.append((name, "\n\n".join(parts) + "\n"))
    return files, where


def locate(label, files, blocks, decl_texts):
    """(declaration index, offset inside it, spelling) of a label."""
    for fi, block in enumerate(blocks):
        name = "f%d.st" % fi
        if label["file"] != name:
            continue
        pos = 0
        for di in block:
            t = decl_texts[di]
            if pos <= label["start"] < pos + len(t) + 2:
                return (di, label["start"] - pos, dict(files)[name][label["start"]:label["end"]])
            pos += len(t) + 2
    return (None, label["start"], label["file"])


def observe(probe, files, how):
    if how == "project":
        ops = [{"op": "change", "file": n, "text": t} for n, t in files] + [{"op": "semantic"}]
        obs = probe.run({"op": "project", "ops": ops})
        if obs.get("watchdog") or "died" in obs or "panic" in obs:
            return None, obs
        return obs["results"][-1], obs
    obs = probe.run({"op": "analyze", "files": [[n, t] for n, t in files]})
    if obs.get("watchdog") or "died" in obs or "panic" in obs:
        return None, obs
    bad = [p for p in obs.get("parse", []) if not p["ok"]]
    if bad:
        # analyze() only sees the files that parsed: a file that does not parse makes the set fail
        obs = dict(obs, ok=False, diags=[p["diag"] for p in bad] + obs.get("diags", []))
    return obs, obs


def summarise(r, files, blocks, decl_texts, planted, label_set=False):
    ok = bool(r.get("ok"))
    if planted is None:
        return (ok,)
    if label_set:
        # a fault of two declarations (the same name twice): which of the two is 'the duplicate' and which 'the first' is
        # a matter of order by nature; that both are pointed at, and where, is not
        locs = sorted((d["code"], tuple(sorted(locate(lab, files, blocks, decl_texts)[:2] for lab in [d["primary"]] + list(d["secondary"]))))
                      for d in r.get("diags", []) if d["code"] == planted)
        return (ok, tuple(locs))
    locs = sorted((d["code"],) + locate(d["primary"], files, blocks, decl_texts) for d in r.get("diags", [])
                  if d["code"] == planted)
    return (ok, tuple(locs))


def missing_external_faults(decls):
    """A POU uses a configuration global without declaring it VAR_EXTERNAL: P0015 whatever the order."""
    for i, d in enumerate(decls):
        if d["k"] not in ("fb", "program"):
            continue
        for j, v in enumerate(d["vars"]):
            if v["class"] == "VAR_EXTERNAL" and v["qual"] != "CONSTANT":
                m = copy.deepcopy(decls)
                del m[i]["vars"][j]
                m[i]["body"].append(["assign", m[i]["body"][0][1] if m[i]["body"][0][0] == "assign" else v["name"],
                                     v["name"]])
                m[i]["body"].append(["assign", v["name"], "1"])
                yield "P0015", "missing-external", m


def variants(n, rng, budget):
    """(permutation, blocks) pairs: exhaustive for n <= 4, structured + sampled beyond."""
    idx = list(range(n))
    out = []
    perms = list(itertools.permutations(idx)) if n <= 5 else []
    if n <= 4:
        for perm in perms:
            for part in set_partitions(list(perm), 3):
                for order in itertools.permutations(part):
                    out.append((perm, [list(b) for b in order]))
        exhaustive = True
    else:
        exhaustive = False
        if n == 5:
            for perm in perms:
                out.append((perm, [list(perm)]))
            for part in set_partitions(idx, 3):
                for order in itertools.permutations(part):
                    out.append((tuple(idx), [list(b) for b in order]))
        while len(out) < budget:
            perm = idx[:]
            rng.shuffle(perm)
            k = rng.randint(1, 3)
            blocks = [[] for _ in range(k)]
            for x in perm:
                blocks[rng.randrange(k)].append(x)
            blocks = [b for b in blocks if b]
            rng.shuffle(blocks)
            out.append((tuple(perm), blocks))
    if len(out) > budget:
        head = out[:1]
        rest = out[1:]
        rng.shuffle(rest)
        out = head + rest[:budget - 1]
        exhaustive = False
    return out, exhaustive


def run_unit(probe, res, decls, planted, tag, rng, budget, bad_kinds, presence_only=False, label_set=False):
    canonical_texts = [vgen.render_decl(d) for d in decls]
    headers = [""] * len(decls)
    if rng.random() < 0.2:
        # the way OSCAT exports look: every declaration carries a description header (empty here, so that it means the
        # same however many of them end up in one file)
        headers = ["(*@KEY@:DESCRIPTION*)%s(*@KEY@:END_DESCRIPTION*)\n" % rng.choice(["", "\n", " ", "\n\n"])
                   if rng.random() < 0.8 else "" for _ in decls]
        res.count("unit-with-oscat-headers")
    plain_texts = canonical_texts
    canonical_texts = [h + t for h, t in zip(headers, plain_texts)]
    decl_texts = canonical_texts
    n = len(decls)
    vs, exhaustive = variants(n, rng, budget)
    ref = None
    ref_case = None
    orders_seen = set()
    agreed = True
    for vi, (perm, blocks) in enumerate(vs):
        # every 5th variant also re-spells identifier occurrences in another letter case (same length, so the
        # offsets used for the location comparison do not move)
        decl_texts = [h + vgen.recase_identifiers(t, rng) for h, t in zip(headers, plain_texts)] if vi % 5 == 4 else canonical_texts
        files, _ = compose(decl_texts, blocks)
        if vi % 3 == 2:
            # a file that declares nothing (empty, blank, only a comment) somewhere in the set changes nothing
            files = list(files)
            files.insert(rng.randrange(len(files) + 1),
                         ("notes%d.st" % vi, rng.choice(["", "\n\n", "(* nothing declared here *)\n", "  \t\n(* a *) (* b *)\n"])))
            res.count("variant-with-empty-file")
        how = "project" if vi % 4 else "analyze"
        reps = 3 if vi == 0 else 1
        for _ in range(reps):
            r, obs = observe(probe, files, how)
            res.evaluations += 1
            res.count("variant")
            case = {"files": files, "blocks": blocks, "how": how, "planted": planted, "tag": tag}
            if r is None:
                if obs.get("watchdog"):
                    res.inconclusive.append({"why": "watchdog", "case": case})
                else:
                    res.violation("crash", "crash", obs.get("panic"), case)
                continue
            for e in obs.get("events", []):
                if e[0] == "order":
                    orders_seen.add(e[1])
            if ref is None and any(d["code"] == "P9999" for d in r.get("diags", [])):
                # the reference variant itself is answered 'not implemented': outside the property
                res.unsupported += 1
                return
            s = summarise(r, files, blocks, decl_texts, planted, label_set)
            if label_set:
                pass
            elif presence_only and planted is not None:
                s = (s[0], bool(s[1]))
            elif planted is not None:
                s = (s[0], tuple((c, di, off, sp.lower()) for c, di, off, sp in s[1]))
            if ref is None:
                ref, ref_case = s, case
                continue
            if s[0] != ref[0]:
                agreed = False
                res.violation("verdict-differs", "%s:verdict" % tag,
                              {"reference": {"ok": ref[0], "blocks": ref_case["blocks"]}, "this": {"ok": s[0], "blocks": blocks},
                               "codes": [d["code"] for d in r.get("diags", [])]},
                              {"reference": ref_case, "variant": case})
            elif planted is not None and s != ref:
                agreed = False
                res.violation("location-differs", "%s:location" % tag, {"reference": ref[1], "this": s[1]},
                              {"reference": ref_case, "variant": case})
    res.counters["file_orders_observed"] = res.counters.get("file_orders_observed", 0) + len(orders_seen)
    if agreed and ref is not None:
        res.distinct.add(core.key_of(tag, n, tuple(d["k"] for d in decls), planted))
        res.count("units-agreed")
        if exhaustive:
            res.count("units-exhaustive")
        res.seen("unit_sizes", n)


def shard(shard_i, nshards, payload):
    res = core.Result()
    seed = payload["seed"]
    probe = core.Probe()
    try:
        for i in range(shard_i, payload["n_units"], nshards):
            rng = core.rng_for(seed, "c06", i)
            g = vgen.VGen(rng, avoid=payload["avoid"])
            big = (i % 10 == 9)
            if big:
                decls = g.unit(n_types=rng.randint(2, 4), n_fbs=rng.randint(2, 3), n_programs=2, with_config=True,
                               n_functions=1)
            else:
                decls = g.unit(n_types=rng.randint(0, 2), n_fbs=rng.randint(0, 2), n_programs=rng.randint(0, 1),
                               with_config=rng.random() < 0.6, n_functions=rng.randint(0, 1))
            if len(decls) < 2:
                continue
            if not big and len(decls) > 5:
                decls = None
            if decls is None:
                continue
            run_unit(probe, res, decls, None, "valid", rng, payload["budget"], ())
            faults = [(c, s, m) for c, s, m, _ in vgen.plant_all(decls) if not s.endswith("rhs-enum-target")]
            faults += list(missing_external_faults(decls)) if "config-global-leak" not in payload["avoid_faults"] else []
            rng.shuffle(faults)
            # one fault of each distinct code
            # faults that involve two declarations: a containment cycle and a duplicated name (wherever the two
            # halves end up - same file, different files, either order - the diagnosis must be the same)
            cyc = [{"k": "raw", "text": "FUNCTION_BLOCK CycA\nVAR b : CycB; END_VAR\nEND_FUNCTION_BLOCK"},
                   {"k": "raw", "text": "FUNCTION_BLOCK CycB\nVAR a : CycA; END_VAR\nEND_FUNCTION_BLOCK"}]
            dup = [{"k": "raw", "text": "PROGRAM DupName\nVAR x : INT; END_VAR\nx := 1;\nEND_PROGRAM"},
                   {"k": "raw", "text": "PROGRAM DupName\nVAR y : INT; END_VAR\ny := 2;\nEND_PROGRAM"}]
            same = {"k": "raw", "text": "FUNCTION_BLOCK SameTwice\nVAR x : INT; END_VAR\nx := 1;\nEND_FUNCTION_BLOCK"}
            samet = {"k": "raw", "text": "TYPE\n  SameType : (sa, sb);\nEND_TYPE"}
            dupbad = [{"k": "raw", "text": "PROGRAM DupHalfBad\nVAR x : INT; END_VAR\nx := 1;\nEND_PROGRAM"},
                      {"k": "raw", "text": "PROGRAM DupHalfBad\nVAR y : INT; END_VAR\ny := notDeclaredAnywhere;\nEND_PROGRAM"}]
            # the same name as a constant global of one configuration and a plain global of another, and a plain
            # external of that name: it refers to a constant global wherever the three declarations stand
            gq = [{"k": "raw", "text": "CONFIGURATION CfgConstShared\nVAR_GLOBAL CONSTANT\n  sharedG : INT := 1;\nEND_VAR\n  RESOURCE rcs ON PLC\n"
                                       "    PROGRAM ics : UsesSharedG;\n  END_RESOURCE\nEND_CONFIGURATION"},
                  {"k": "raw", "text": "CONFIGURATION CfgPlainShared\nVAR_GLOBAL\n  sharedG : INT;\nEND_VAR\n  RESOURCE rps ON PLC\n"
                                       "    PROGRAM ips : UsesSharedG;\n  END_RESOURCE\nEND_CONFIGURATION"},
                  {"k": "raw", "text": "PROGRAM UsesSharedG\nVAR_EXTERNAL\n  sharedG : INT;\nEND_VAR\nVAR y : INT; END_VAR\ny := sharedG;\nEND_PROGRAM"}]
            m = list(decls[:2])
            for e_ in gq:
                m.insert(rng.randrange(len(m) + 1), e_)
            run_unit(probe, res, m, "P0018", "fault:constant-and-plain-global", rng, max(60, payload["budget"] // 4), (), presence_only=True)
            for extra, code, tag in ((cyc, "P0010", "fault:cycle"), (dup, "P0020", "fault:duplicate"),
                                     (dupbad, "P0020", "fault:duplicate-one-copy-faulty"),
                                     ([same, dict(same)], "P0020", "fault:identical-twice"),
                                     ([samet, dict(samet)], "P0019", "fault:identical-type-twice")):
                # among the first declarations of the unit, or (every other time) among all of them: function blocks and
                # programs with their arrays, instances and externals are then part of the set
                m = list(decls) if len(decls) <= 6 and rng.random() < 0.5 else list(decls[:3])
                m.insert(rng.randrange(len(m) + 1), extra[0])
                m.insert(rng.randrange(len(m) + 1), extra[1])
                # the cycle is named at the same member whatever the order (since 10e320c); of two same-named declarations
                # both are pointed at (which is called the duplicate depends on the order by nature); two identical texts
                # cannot be told apart by position inside the declaration, only presence is compared there
                if tag == "fault:cycle":
                    run_unit(probe, res, m, code, tag, rng, max(60, payload["budget"] // 4), ())
                elif tag in ("fault:duplicate", "fault:duplicate-one-copy-faulty"):
                    run_unit(probe, res, m, code, tag, rng, max(60, payload["budget"] // 4), (), label_set=True)
                else:
                    run_unit(probe, res, m, code, tag, rng, max(60, payload["budget"] // 4), (), presence_only=True)
            seen = set()
            for code, site, mutant in faults:
                key = (code, site == "missing-external")
                if key in seen or len(seen) >= payload["faults_per_unit"]:
                    continue
                seen.add(key)
                tag = "fault:" + (site if site == "missing-external" else code)
                run_unit(probe, res, mutant, code, tag, rng, max(60, payload["budget"] // 4), ())
            if len(res.samples) < 1:
                res.sample({"unit": [vgen.render_decl(d)[:120] for d in decls]})
    finally:
        probe.close()
    return res.to_dict()


def cli_shard(shard_i, nshards, payload):
    res = core.Result()
    seed = payload["seed"]
    tmp = core.worker_tmpdir("c06")
    try:
        for i in range(shard_i, payload["n_cli"], nshards):
            rng = core.rng_for(seed, "c06cli", i)
            decls = vgen.VGen(rng, avoid=payload["avoid"]).unit(n_types=1, n_fbs=1, n_programs=1, with_config=True,
                                                                n_functions=0)
            planted = None
            if i % 2:
                faults = [(c, s, m) for c, s, m, _ in vgen.plant_all(decls) if not s.endswith("rhs-enum-target")]
                # every other time a fault whose diagnostic has labels in two declarations (the invocation and the
                # function block, the external and the global): in different files once the unit is spread out
                two = [f for f in faults if f[0] in ("P0006", "P0007", "P0008", "P0009", "P0018")]
                if two and i % 4 == 1:
                    faults = two
                if faults:
                    planted, _, decls = rng.choice(faults)
            texts = [vgen.render_decl(d) for d in decls]
            k = min(3, len(texts))
            blocks = [[] for _ in range(k)]
            for j in range(len(texts)):
                blocks[j % k].append(j)
            d = os.path.join(tmp, "u%d" % i)
            os.makedirs(d)
            paths = []
            nested = (i % 4 >= 2)
            for fi, b in enumerate(blocks):
                if nested:
                    # one directory per file, every file with the same name (lib/types.st, app/types.st, ...)
                    os.makedirs(os.path.join(d, "dir%d" % fi))
                    pth = os.path.join(d, "dir%d" % fi, "unit.st")
                else:
                    pth = os.path.join(d, "f%d.st" % fi)
                open(pth, "w").write("\n\n".join(texts[x] for x in b) + "\n")
                paths.append(pth)
            ref = None
            if nested:
                dirs = [os.path.dirname(p_) for p_ in paths]
                runs = [list(p) for p in itertools.permutations(paths)] + [list(p) for p in itertools.permutations(dirs)]
                if len(paths) > 1:
                    runs.append([dirs[0]] + paths[1:])
                res.count("cli-same-file-name-in-several-directories")
            else:
                if i % 4 == 1:
                    open(os.path.join(d, "notes.st"), "w").write("(* nothing declared here *)\n")
                    res.count("cli-with-empty-file")
                runs = [list(p) for p in itertools.permutations(paths)] + [[d]] * 4
            for args in runs:
                r = core.run_cli(["check"] + args, tmp)
                res.evaluations += 1
                res.count("cli")
                if r["watchdog"]:
                    res.inconclusive.append({"why": "cli watchdog", "case": {"args": args}})
                    continue
                diags = core.parse_cli_diags(r["err"])
                s = (r["rc"] == 0, tuple(sorted((c[0], os.path.relpath(c[2], d) if c[2] else "", c[3], c[4]) for c in diags
                                                 if planted and c[0] == planted)))
                case = {"files": [[os.path.relpath(p, d), open(p).read()] for p in paths],
                        "args": [os.path.relpath(a, d) for a in args], "planted": planted}
                if ref is None:
                    ref = s
                elif s[0] != ref[0]:
                    res.violation("verdict-differs", "cli:verdict", {"reference": ref, "this": s}, case)
                elif s != ref:
                    res.violation("location-differs", "cli:location", {"reference": ref, "this": s}, case)
            else:
                res.distinct.add(core.key_of("cli", i))
            shutil.rmtree(d, ignore_errors=True)
    finally:
        shutil.rmtree(tmp, ignore_errors=True)
    return res.to_dict()


def run(tier, seed):
    core.build_probe()
    core.build_plc()
    avoid = sorted({a for f in core.load_findings("C02") if f.get("status") == "open" for a in f.get("atoms", [])})
    avoid_faults = sorted({a for f in core.load_findings(PROP) if f.get("status") == "open" for a in f.get("atoms", [])})
    payload = {"seed": seed, "avoid": avoid, "avoid_faults": [],
               "n_units": 96 if tier == "quick" else 1500, "budget": 260 if tier == "quick" else 1300,
               "faults_per_unit": 3 if tier == "quick" else 6, "n_cli": 64 if tier == "quick" else 800}
    parts = core.run_sharded(shard, payload)
    parts += core.run_sharded(cli_shard, payload)
    res = core.Result.merge(parts)
    extra = {
        "rule": "units of 2-5 top-level declarations with cross references (and every 10th with 6-12): for n <= 4 the "
                "full product permutation x partition into <= 3 files x file order, for n = 5 all 120 permutations and "
                "all 181 partition/file orders plus sampled products, beyond that sampled; each variant on a fresh "
                "thread (fresh hash seed), through analyze() and FileBackedProject::semantic(); valid units and "
                "single-fault mutants (every rule code, plus 'global used without VAR_EXTERNAL'); CLI: all argument "
                "orders of 3 files, the directory, 4 repeated runs; distinct = distinct units whose every variant agreed",
        "exhaustive": False,
        "assumptions": ["for multi-diagnostic outcomes only the verdict and the planted code's locations are compared",
                        "hash-order independence is observed over the orders real seeds produced (counted via the "
                        "project hook), not over all orders"],
        "min_evaluations": 1000,
        "coverage": {"units_fully_enumerated": res.counters.get("units-exhaustive", 0),
                     "units_agreed": res.counters.get("units-agreed", 0),
                     "distinct_file_orders_observed": res.counters.get("file_orders_observed", 0)},
    }
    return res, extra


def replay(case):
    core.build_probe()
    c = case["case"]
    if "args" in c:
        core.build_plc()
        tmp = core.worker_tmpdir("c06r")
        d = os.path.join(tmp, "u")
        for n_, t_ in c["files"]:
            os.makedirs(os.path.dirname(os.path.join(d, n_)), exist_ok=True)
            open(os.path.join(d, n_), "w").write(t_)
        seen = set()
        for args in [c["args"]] * 6 + [[n_ for n_, _ in c["files"]]] * 6:
            r = core.run_cli(["check"] + [os.path.join(d, a) for a in args], tmp)
            seen.add(r["rc"] == 0)
        shutil.rmtree(tmp, ignore_errors=True)
        return len(seen) == 1, "verdicts seen: %s" % sorted(seen)
    probe = core.Probe()
    out = []
    for key in ("reference", "variant"):
        v = c[key]
        r, obs = observe(probe, [tuple(f) for f in v["files"]], v["how"])
        out.append((bool(r and r.get("ok")), sorted(d["code"] for d in (r or {}).get("diags", []))))
    probe.close()
    return out[0][0] == out[1][0], "reference=%s variant=%s" % (out[0], out[1])
