"""C09 - literals are read as the value IEC 61131-3 assigns them, or rejected.

Oracle: Python big-integer / Fraction / calendar evaluation of the literal text.  Each literal is
observed as an initial value and inside an expression; the constant node of the parsed library is
compared with the reference value.  'Representable' means: fits ironplc's own carrier (u128 integer,
finite f64, time::Duration = i64 seconds, year 0..9999, u32 address component)."""
import itertools
import math
from fractions import Fraction

import core
import norm

PROP = "C09"
U128 = (1 << 128) - 1
I64 = (1 << 63) - 1
U32 = (1 << 32) - 1

ACCEPT, REJECT, EITHER, IF_ACCEPTED = "accept", "reject", "either", "if-accepted"


def lit_case(cat, cell, text, verdict, value=None, ctxs=("init", "expr"), vtype="INT"):
    return {"cat": cat, "cell": cell, "text": text, "verdict": verdict, "value": value, "ctxs": list(ctxs),
            "vtype": vtype}


# ---------------------------------------------------------------- grid

def underscore_variants(digits, rng, k=3):
    out = [digits]
    if len(digits) > 1:
        positions = list(range(1, len(digits)))
        for p in ([positions[0], positions[-1]] + rng.sample(positions, min(k, len(positions)))):
            out.append(digits[:p] + "_" + digits[p:])
    return list(dict.fromkeys(out))


MAGS = [("0", 0), ("1", 1), ("2^8-1", 255), ("2^8", 256), ("2^16-1", 65535), ("2^16", 65536),
        ("2^32-1", (1 << 32) - 1), ("2^32", 1 << 32), ("2^63-1", (1 << 63) - 1), ("2^63", 1 << 63),
        ("2^64-1", (1 << 64) - 1), ("2^64", 1 << 64), ("2^64+1", (1 << 64) + 1), ("2^127-1", (1 << 127) - 1),
        ("2^127", 1 << 127), ("2^128-1", U128), ("2^128", U128 + 1), ("2^128+1", U128 + 2), ("10^40", 10 ** 40)]


def to_base(v, b):
    if v == 0:
        return "0"
    ds = "0123456789ABCDEF"
    s = ""
    while v:
        s = ds[v % b] + s
        v //= b
    return s


def integer_cases(rng, fill):
    cases = []
    mags = list(MAGS)
    for _ in range(fill):
        v = rng.getrandbits(rng.choice([7, 15, 31, 63, 64, 100, 127, 128, 129]))
        mags.append(("rand%d" % v.bit_length(), v))
    for name, v in mags:
        ok = v <= U128
        for base, pfx in ((10, ""), (16, "16#"), (8, "8#"), (2, "2#")):
            digits = to_base(v, base)
            for dv in underscore_variants(digits, rng, 2):
                us = "us" if "_" in dv else "plain"
                text = pfx + dv
                cases.append(lit_case("int", "b%d.%s.%s" % (base, name, us), text,
                                      ACCEPT if ok else REJECT, ["int", v, None]))
            # leading zeros
            cases.append(lit_case("int", "b%d.%s.lead0" % (base, name), pfx + "00" + digits,
                                  ACCEPT if ok else REJECT, ["int", v, None]))
        d10 = str(v)
        for sign in ("+", "-"):
            val = -v if sign == "-" else v
            cases.append(lit_case("int", "signed%s.%s" % (sign, name), sign + d10, ACCEPT if ok else REJECT,
                                  ["int", val, None]))
        for t in ("SINT", "INT", "DINT", "LINT", "USINT", "UINT", "UDINT", "ULINT"):
            if rng.random() < 0.4:
                cases.append(lit_case("int", "typed.%s" % name, t + "#" + d10, ACCEPT if ok else REJECT,
                                      ["int", v, t.lower()]))
                cases.append(lit_case("int", "typed.neg.%s" % name, t + "#-" + d10, ACCEPT if ok else REJECT,
                                      ["int", -v, t.lower()]))
                cases.append(lit_case("int", "typed.hex.%s" % name, t + "#16#" + to_base(v, 16),
                                      ACCEPT if ok else REJECT, ["int", v, t.lower()]))
        for t in ("BYTE", "WORD", "DWORD", "LWORD"):
            if rng.random() < 0.4:
                cases.append(lit_case("bits", "typed.%s" % name, t + "#" + d10, ACCEPT if ok else REJECT,
                                      ["bits", v, t.lower()], vtype=t))
                cases.append(lit_case("bits", "typed.hex.%s" % name, t + "#16#" + to_base(v, 16),
                                      ACCEPT if ok else REJECT, ["bits", v, t.lower()], vtype=t))
                cases.append(lit_case("bits", "typed.bin.%s" % name, t + "#2#" + to_base(v, 2),
                                      ACCEPT if ok else REJECT, ["bits", v, t.lower()], vtype=t))
    for b, t in ((True, "TRUE"), (False, "FALSE"), (True, "BOOL#TRUE"), (False, "BOOL#FALSE"), (True, "BOOL#1"),
                 (False, "BOOL#0"), (True, "true"), (False, "False"), (True, "bool#true")):
        cases.append(lit_case("bool", t.lower(), t, ACCEPT, ["bool", b], vtype="BOOL"))
    return cases


def real_cases(rng, fill):
    cases = []
    wholes = ["0", "1", "12", "999", "123456789", "9" * 17, "1" + "0" * 22, "1_000", "0_0"]
    fracs = ["0", "5", "25", "001", "999999", "123456789012345678", "0_5", "5" * 30]
    exps = ["", "E0", "e0", "E1", "E+1", "E-1", "e10", "E+10", "E-10", "E308", "E+308", "E309", "E400", "E-320",
            "E-400", "E1_0", "E00"]
    combos = list(itertools.product(wholes, fracs, exps))
    rng.shuffle(combos)
    for w, f, e in combos[:260 + fill]:
        text = "%s.%s%s" % (w, f, e)
        clean = text.replace("_", "")
        try:
            v = float(clean)
        except ValueError:
            continue
        exact = Fraction(clean.split("E")[0].split("e")[0]) * (Fraction(10) ** int((clean.upper().split("E") + ["0"])[1]))
        if math.isinf(v):
            verdict = REJECT
        elif v == 0.0 and exact != 0:
            verdict = EITHER        # underflow to zero: the property does not say
        else:
            verdict = ACCEPT
        cell = "w%d.f%d.%s" % (len(w), len(f), e.replace("+", "p").replace("-", "m") or "noexp")
        cases.append(lit_case("real", cell, text, verdict, ["real", repr(v), None], vtype="LREAL"))
        if rng.random() < 0.3:
            cases.append(lit_case("real", "neg." + cell, "-" + text, verdict, ["real", repr(-v), None],
                                  ctxs=("init", "expr"), vtype="LREAL"))
            cases.append(lit_case("real", "pos." + cell, "+" + text, verdict, ["real", repr(v), None], vtype="LREAL"))
        if rng.random() < 0.3:
            t = rng.choice(["REAL", "LREAL"])
            cases.append(lit_case("real", "typed." + cell, t + "#" + text, verdict, ["real", repr(v), t.lower()],
                                  vtype="LREAL"))
            cases.append(lit_case("real", "typed.neg." + cell, t + "#-" + text, verdict,
                                  ["real", repr(-v), t.lower()], vtype="LREAL"))
    return cases


UNITS = [("d", 86400 * 10 ** 9), ("h", 3600 * 10 ** 9), ("m", 60 * 10 ** 9), ("s", 10 ** 9), ("ms", 10 ** 6)]


def duration_cases(rng, fill):
    cases = []
    ints = ["0", "1", "23", "24", "59", "60", "61", "999", "1000", "1_000", "86400", str(1 << 31), str(1 << 32),
            str(I64 // 86400), str(I64 // 86400 + 1), str(I64 // 3600), str(I64 // 3600 + 1), str(I64),
            str(I64 + 1), str((1 << 64) - 1), str(1 << 64), str((1 << 64) * 1000), "9" * 30, "007"]
    fracs = ["0.5", "0.9", "1.5", "0.001", "0.000001", "0.000000001", "0.0000000001", "2.25", "10.125", "0.1",
             "0.999999999", "123.456", "0.000000000000001", "0.0000000000000001", "1_0.5", "1.5_0",
             str(I64 // 86400) + ".9"]
    prefixes = ["T#", "TIME#", "t#", "time#", "T#-", "TIME#-"]
    for unit, ns_per in UNITS:
        for txt in ints + fracs:
            for pfx in (prefixes if rng.random() < 0.25 else [rng.choice(prefixes[:2]), rng.choice(prefixes)]):
                for u in ((unit, unit.upper()) if rng.random() < 0.3 else (unit,)):
                    text = pfx + txt + u
                    exact = Fraction(txt.replace("_", "")) * ns_per
                    neg = pfx.endswith("-")
                    if exact.denominator != 1:
                        if txt.count(".") and len(txt.split(".")[1].replace("_", "")) > 15:
                            verdict, value = EITHER, None
                        else:
                            verdict, value = EITHER, None      # not a whole number of ns: not in the exact set
                    else:
                        ns = int(exact)
                        if ns // 10 ** 9 > I64:
                            verdict, value = REJECT, None
                        elif int(Fraction(txt.replace("_", ""))) > (1 << 64) - 1:
                            # the numeric part itself exceeds ironplc's carrier for it (u64)
                            verdict, value = EITHER, None
                        else:
                            verdict, value = ACCEPT, ["dur", -ns if neg else ns]
                    if txt.count(".") and len(txt.split(".")[1].replace("_", "")) > 15:
                        verdict = EITHER
                    kind = "frac" if "." in txt else "int"
                    mag = "huge" if len(txt) > 12 else "small"
                    cell = "%s.%s.%s.%s%s" % (unit, kind, mag, "neg." if neg else "", "us" if "_" in txt else "plain")
                    cases.append(lit_case("dur", cell, text, verdict, value, vtype="TIME"))
    # compound durations: exact sum of the parts
    for _ in range(40 + fill // 4):
        i = rng.randrange(0, 4)
        j = rng.randrange(i + 1, 5)
        parts = []
        ns = 0
        for k in range(i, j + 1):
            v = rng.choice([0, 1, 2, 25, 59, 60, 90, 999])
            parts.append("%d%s" % (v, UNITS[k][0]))
            ns += v * UNITS[k][1]
        sep = rng.choice(["", "_"])
        text = rng.choice(["T#", "TIME#", "t#"]) + sep.join(parts)
        cases.append(lit_case("dur", "compound.%d%s" % (len(parts), ".sep" if sep else ""), text, ACCEPT,
                              ["dur", ns], vtype="TIME"))
    # compound durations at large: any decreasing selection of units, upper-case units, a fraction in the last part,
    # digit-group underscores, a sign, boundary values per part; the value is the exact sum of the parts
    for _ in range(120 + fill):
        ks = sorted(rng.sample(range(5), rng.randint(2, 5)))
        contiguous = ks == list(range(ks[0], ks[-1] + 1))
        parts = []
        total = Fraction(0)
        for n_, k in enumerate(ks):
            last = n_ == len(ks) - 1
            if last and rng.random() < 0.4:
                txt = rng.choice(["0.5", "1.5", "30.25", "0.001", "2.000001", "59.999", "1_0.5", "0.125"])
            else:
                txt = rng.choice(["0", "1", "2", "23", "24", "25", "59", "60", "61", "90", "999", "1000", "1_000", "007", "86400",
                                  str(rng.randint(0, 100000))])
            u = UNITS[k][0]
            parts.append(txt + (u.upper() if rng.random() < 0.2 else u))
            total += Fraction(txt.replace("_", "")) * UNITS[k][1]
        sep = rng.choice(["", "", "_"])
        neg = rng.random() < 0.25
        text = rng.choice(["T#", "TIME#", "t#", "time#"]) + ("-" if neg else "") + sep.join(parts)
        if total.denominator != 1:
            verdict, value = EITHER, None
        else:
            # units that skip one (1h30s) are not derivable from B.1.2.3.1: if accepted, then with the value of the sum
            verdict, value = (ACCEPT if contiguous else IF_ACCEPTED), ["dur", -int(total) if neg else int(total)]
        cases.append(lit_case("dur", "compound.any.%d%s%s%s" % (len(parts), ".sep" if sep else "", ".neg" if neg else "",
                                                              "" if contiguous else ".gap"), text, verdict, value, vtype="TIME"))
    # not durations: units out of order or repeated, a fraction before the last part, a part without unit or without
    # number, an unknown unit, a dangling or doubled separator - each must be rejected, none read as some sum
    for bad in ["30m1h", "1s1m", "5ms1s", "1h1h", "1m30m", "1d1d2h", "1.5h30m", "0.5d12h", "1h30.5m20s", "1h30", "1d2", "1h_30",
                "h30m", "1hm", "1h30x", "1h30sec", "1h30min", "1d2w", "1h_", "1h__30m", "_1h30m", "1h30m_", "1h 30m"[:2] + "_m",
                "1h30m1", "1mss", "1msms", "1ms30s"]:
        for pfx in ("T#", "TIME#-"):
            cases.append(lit_case("dur", "compound.malformed", pfx + bad, REJECT, None, vtype="TIME"))
    # carriers: parts that each fit but whose sum does not
    big_d = I64 // 86400
    cases.append(lit_case("dur", "compound.overflow", "T#%dd23h59m59s" % big_d, EITHER, None, vtype="TIME"))
    cases.append(lit_case("dur", "compound.overflow", "T#%dd24h" % (big_d + 1), REJECT, None, vtype="TIME"))
    cases.append(lit_case("dur", "compound.overflow", "T#%dd%dh" % (big_d, I64 // 3600), REJECT, None, vtype="TIME"))
    return cases


def leap(y):
    return y % 4 == 0 and (y % 100 != 0 or y % 400 == 0)


def valid_date(y, m, d):
    if not (0 <= y <= 9999 and 1 <= m <= 12 and d >= 1):
        return False
    dim = [31, 29 if leap(y) else 28, 31, 30, 31, 30, 31, 31, 30, 31, 30, 31][m - 1]
    return d <= dim


def datetime_cases(rng, fill):
    cases = []
    hs = [0, 1, 12, 23, 24, 25, 99, 255, 256]
    ms = [0, 1, 30, 59, 60, 61, 255, 256]
    ss = [0, 1, 30, 59, 60, 61, 255, 256, 300, 65536]
    combos = [(h, 0, 0) for h in hs] + [(0, m, 0) for m in ms] + [(0, 0, s) for s in ss] + \
             [(23, 59, 59), (24, 0, 0), (10, 10, 300), (10, 60, 10)]
    for _ in range(fill // 2):
        combos.append((rng.choice(hs), rng.choice(ms), rng.choice(ss)))
    for h, m, s in combos:
        ok = h <= 23 and m <= 59 and s <= 59
        for pfx in ("TOD#", "TIME_OF_DAY#", "tod#"):
            for fmt in ("%d:%d:%d", "%02d:%02d:%02d"):
                text = pfx + fmt % (h, m, s)
                cases.append(lit_case("tod", "h%s.m%s.s%s" % (cls(h, 23), cls(m, 59), cls(s, 59)), text,
                                      ACCEPT if ok else REJECT, ["tod", h, m, s, 0], vtype="TOD"))
        for frac, us in (("5", 500000), ("25", 250000), ("001", 1000), ("000001", 1), ("999999", 999999),
                         ("0", 0), ("021", 21000)):
            text = "TOD#%d:%d:%d.%s" % (h, m, s, frac)
            cases.append(lit_case("tod", "frac.h%s.m%s.s%s" % (cls(h, 23), cls(m, 59), cls(s, 59)), text,
                                  ACCEPT if ok else REJECT, ["tod", h, m, s, us], vtype="TOD"))
    ys = [0, 1, 1900, 1970, 2000, 2023, 2024, 9999, 10000, 99999, 1 << 31, 1 << 32]
    mos = [0, 1, 2, 12, 13, 255, 256, 257]
    ds = [0, 1, 28, 29, 30, 31, 32, 255, 256, 257]
    dcombos = [(y, 1, 1) for y in ys] + [(2023, m, 1) for m in mos] + [(2023, 1, d) for d in ds] + \
              [(2023, 2, d) for d in ds] + [(2024, 2, d) for d in ds] + [(1900, 2, 29), (2000, 2, 29), (2023, 4, 31),
                                                                        (2023, 12, 31), (0, 2, 29)]
    for _ in range(fill // 2):
        dcombos.append((rng.choice(ys), rng.choice(mos), rng.choice(ds)))
    for y, mo, d in dcombos:
        ok = valid_date(y, mo, d)
        for pfx in ("D#", "DATE#", "d#", "date#"):
            for fmt in ("%d-%d-%d", "%04d-%02d-%02d"):
                text = pfx + fmt % (y, mo, d)
                cases.append(lit_case("date", "y%s.m%s.d%s" % (cls(y, 9999), cls(mo, 12), cls(d, 31)), text,
                                      ACCEPT if ok else REJECT, ["date", y, mo, d], vtype="DATE"))
        h, m, s = rng.choice(combos)
        ok2 = ok and h <= 23 and m <= 59 and s <= 59
        for pfx in ("DT#", "DATE_AND_TIME#", "dt#"):
            text = pfx + "%d-%d-%d-%d:%d:%d" % (y, mo, d, h, m, s)
            cases.append(lit_case("dt", "date%s.time%s" % ("ok" if ok else "bad", "ok" if h <= 23 and m <= 59 and s <= 59 else "bad"),
                                  text, ACCEPT if ok2 else REJECT, ["dt", y, mo, d, h, m, s, 0], vtype="DT"))
    return cases


def cls(v, mx):
    if v == 0:
        return "0"
    if v < mx:
        return "in"
    if v == mx:
        return "max"
    if v == mx + 1:
        return "max+1"
    return "over"


def string_cases(rng, fill):
    cases = []
    alphabet = [chr(c) for c in range(32, 127) if chr(c) not in "'\"$"]
    samples = ["", "a", "abc", " ", "  x  ", "(* not a comment *)", "// x", "a;b", "END_VAR", "%IX1", "1..2", "é", "日本",
               "a\tb", "€uro", "x" * 200,
               # blank-like and invisible characters are characters like any other
               "10\u00a0kg", "\u00a0", "\u00a0\u00a0", "a\u202fb", "\u3000", "soft\u00adhyphen", "zero\u200bwidth", "\u2003em", "\u0085",
               "tab\there", "  two  blanks  ", "\u00a0lead", "trail\u00a0"]
    for _ in range(30 + fill // 4):
        samples.append("".join(rng.choice(alphabet) for _ in range(rng.randint(1, 12))))
    for c in alphabet:
        samples.append(c)
    for s in samples:
        cases.append(lit_case("str", "single", "'%s'" % s, ACCEPT, ["str", s], vtype="STRING"))
        cases.append(lit_case("str", "double", '"%s"' % s, ACCEPT, ["str", s], vtype="WSTRING"))
    # the other kind of quote mark is an ordinary character: at the start, at the end, alone, doubled, everywhere
    for q, other, vt, cellq in (("'", '"', "STRING", "single"), ('"', "'", "WSTRING", "double")):
        shapes = [other, other * 2, other + "x", "x" + other, other + "x" + other, other + " " + other, "6" + other,
                  other + "quoted" + other, " " + other, other + " "]
        for _ in range(10 + fill // 8):
            body = "".join(rng.choice(alphabet + [other] * 12) for _ in range(rng.randint(1, 8)))
            shapes.append(rng.choice(["", other]) + body + rng.choice(["", other]))
        for s in shapes:
            cases.append(lit_case("str", cellq + ".other-quote", q + s + q, ACCEPT, ["str", s], vtype=vt))
        cases.append(lit_case("str", "typed." + cellq + ".other-quote", "%s#%s%sab%s%s" % (vt, q, other, other, q), ACCEPT,
                              ["str", other + "ab" + other], vtype=vt))
    cases.append(lit_case("str", "single.with-dquote", "'a\"b'", ACCEPT, ["str", 'a"b'], vtype="STRING"))
    cases.append(lit_case("str", "double.with-squote", "\"a'b\"", ACCEPT, ["str", "a'b"], vtype="WSTRING"))
    cases.append(lit_case("str", "typed.single", "STRING#'ab'", ACCEPT, ["str", "ab"], vtype="STRING"))
    cases.append(lit_case("str", "typed.double", 'WSTRING#"ab"', ACCEPT, ["str", "ab"], vtype="WSTRING"))
    # escapes: decoding is not demanded, the characters between the quotes must be kept in order
    for esc in ("$$", "$L", "$N", "$P", "$R", "$T", "$0A", "$l"):
        s = "a" + esc + "b"
        cases.append(lit_case("str", "escape.other", "'%s'" % s, ACCEPT, ["str", s], vtype="STRING"))
    cases.append(lit_case("str", "escape.quote", "'a$'b'", ACCEPT, ["str", "a$'b"], vtype="STRING"))
    cases.append(lit_case("str", "escape.dquote", '"a$"b"', ACCEPT, ["str", 'a$"b'], vtype="WSTRING"))
    # '$' takes the next character with it: escaped quotes and escaped dollars at the start, at the end, alone, in a row
    for q, other, vt, cellq in (("'", '"', "STRING", "quote"), ('"', "'", "WSTRING", "dquote")):
        bodies = ["$" + q, "$$", "$$$" + q, "$" + q + "$" + q, "a$$", "$$a", "$" + q + "a", "a$" + q, "$$$$", other + "$" + q + other,
                  "$" + q + " ", " $" + q, "$" + other, "x$" + q + "y$" + q + "z", "$$" + other]
        for _ in range(12 + fill // 8):
            bodies.append("".join(rng.choice(["$" + q, "$$", "$N", other, "a", "b ", "7"]) for _ in range(rng.randint(1, 6))))
        for b in bodies:
            cases.append(lit_case("str", "escape.%s.shapes" % cellq, q + b + q, ACCEPT, ["str", b], vtype=vt))
    return cases


def address_cases(rng, fill):
    cases = []
    comps_pool = [0, 1, 9, 10, 99, 100, 255, 65535, 65536, U32 - 1, U32, U32 + 1, (1 << 64), 10 ** 20, 7]
    for loc in "IQM":
        for size in ("", "X", "B", "W", "D", "L"):
            for n in (1, 2, 3, 4, 5, 6):
                reps = 3 if n > 1 else len(comps_pool)
                for r in range(reps):
                    comps = [comps_pool[r]] if n == 1 else [rng.choice(comps_pool) for _ in range(n)]
                    ok = all(c <= U32 for c in comps)
                    text = "%" + loc + size + ".".join(str(c) for c in comps)
                    digits = max(len(str(c)) for c in comps)
                    cell = "%s.%s.n%d.%s" % (loc, size or "nil", n, "d1" if digits == 1 else ("d10+" if digits >= 10 else "multi"))
                    cases.append(lit_case("addr", cell, text, ACCEPT if ok else REJECT,
                                          ["direct", loc, size or "Nil", comps], ctxs=("at", "addr-expr"), vtype="BOOL"))
        cases.append(lit_case("addr", "%s.incomplete" % loc, "%" + loc + "*", ACCEPT, ["direct", loc, "Unspecified", []],
                              ctxs=("at-incomplete",), vtype="BOOL"))
    # digit-group underscores inside a component (integer ::= digit {['_'] digit}): accepting them is not demanded of the
    # lexer, but an accepted address has all its components, with the underscores ignored
    for text, comps in (("%MW1_000", [1000]), ("%IX1_0.2", [10, 2]), ("%QB0.1_5.7", [0, 15, 7]), ("%MD4_294_967_295", [4294967295]),
                        ("%IX0_0", [0]), ("%QW1.2_3", [1, 23]), ("%MX1_2.3_4.5_6", [12, 34, 56])):
        cases.append(lit_case("addr", "underscore", text, IF_ACCEPTED, ["direct", text[1], text[2], comps],
                              ctxs=("at", "addr-expr"), vtype="BOOL"))
    for _ in range(fill):
        loc = rng.choice("IQM")
        size = rng.choice(["", "X", "B", "W", "D", "L"])
        comps = [rng.choice([rng.randint(0, 9), rng.randint(0, 99999), rng.randint(U32 - 5, U32 + 5)])
                 for _ in range(rng.choice([1, 2, 3, 3, 4, 5, 8]))]
        ok = all(c <= U32 for c in comps)
        cases.append(lit_case("addr", "%s.%s.rand" % (loc, size or "nil"), "%" + loc + size + ".".join(map(str, comps)),
                              ACCEPT if ok else REJECT, ["direct", loc, size or "Nil", comps],
                              ctxs=("at", "addr-expr"), vtype="BOOL"))
    return cases


def malformed_number_cases(rng, fill):
    """fixed_point ::= integer [ '.' integer ] has no exponent: a duration, time-of-day or date-and-time number written
    like a real (1.5E3) is not a literal of that kind; it is rejected, not read with the exponent thrown away."""
    cases = []
    exps = ["1.5E3", "1.0E-3", "2.5e+2", "1.0E1", "0.5E0", "1.5E", "3.0e-0"]
    for _ in range(3 + fill // 16):
        exps.append("%d.%dE%s%d" % (rng.randint(0, 99), rng.randint(0, 99), rng.choice(["", "+", "-"]), rng.randint(0, 9)))
    for e in exps:
        for unit in ("ms", "s", "m", "h", "d"):
            cases.append(lit_case("dur", "exponent", "T#%s%s" % (e, unit), REJECT, None, vtype="TIME"))
        cases.append(lit_case("dur", "exponent", "TIME#-%ss" % e, REJECT, None, vtype="TIME"))
        cases.append(lit_case("tod", "exponent", "TOD#00:00:%s" % e, REJECT, None, vtype="TOD"))
        cases.append(lit_case("dt", "exponent", "DT#2024-01-20-15:30:%s" % e, REJECT, None, vtype="DT"))
    return cases


def boolean_cases(rng, fill):
    """boolean_literal ::= [ 'BOOL#' ] ( '1' | '0' | 'TRUE' | 'FALSE' ): nothing else is a Boolean value."""
    cases = []
    for text, b in (("TRUE", True), ("FALSE", False), ("true", True), ("False", False), ("BOOL#TRUE", True),
                    ("BOOL#FALSE", False), ("bool#true", True), ("Bool#False", False), ("BOOL#1", True), ("BOOL#0", False),
                    ("bool#1", True), ("bool#0", False)):
        cases.append(lit_case("bool", "typed" if "#" in text else "plain", text, ACCEPT, ["bool", b], vtype="BOOL"))
    outside = ["2", "3", "9", "10", "11", "100", "255", "256", "1_0", "65536", str(1 << 32), str(1 << 64), "-1", "16#2", "2#10"]
    for _ in range(4 + fill // 16):
        outside.append(str(rng.randint(2, 10 ** rng.randint(1, 25))))
    for t in outside:
        for pfx in ("BOOL#", "bool#"):
            cases.append(lit_case("bool", "typed.not-0-or-1", pfx + t, REJECT, None, vtype="BOOL"))
    for t in ("01", "00", "0_1", "1_", "16#1", "2#1", "+1", "TRUE_", "T"):
        cases.append(lit_case("bool", "typed.other-spelling", "BOOL#" + t, EITHER, None, vtype="BOOL"))
    return cases


def all_cases(rng, fill):
    return (integer_cases(rng, fill) + real_cases(rng, fill) + duration_cases(rng, fill) + datetime_cases(rng, fill) +
            string_cases(rng, fill) + address_cases(rng, fill) + boolean_cases(rng, fill) + malformed_number_cases(rng, fill))


# ---------------------------------------------------------------- observation and verdict

def source(case, ctx):
    t = case["text"]
    if ctx == "init":
        return "PROGRAM p VAR x : %s := %s; END_VAR END_PROGRAM" % (case["vtype"], t)
    if ctx == "expr":
        return "PROGRAM p VAR x : %s; END_VAR x := %s; END_PROGRAM" % (case["vtype"], t)
    if ctx == "at":
        return "PROGRAM p VAR x AT %s : BOOL; END_VAR END_PROGRAM" % t
    if ctx == "at-incomplete":
        return "PROGRAM p VAR x AT %s : BOOL; END_VAR END_PROGRAM" % t
    if ctx == "addr-expr":
        return "PROGRAM p VAR x : BOOL; END_VAR x := %s; END_PROGRAM" % t
    raise AssertionError(ctx)


def extract(nf, ctx):
    prog = nf[0]
    if ctx == "init":
        init = prog[2][0][4]
        if init[0] == "string":
            return ["str", init[3]]
        return init[2]
    if ctx in ("expr", "addr-expr"):
        return prog[5][1][0][2]
    if ctx in ("at", "at-incomplete"):
        ident = prog[2][0][1]
        return ["direct"] + ident[2:]
    raise AssertionError(ctx)


def judge(case, ctx, obs):
    """None = held; else (kind, sig-detail, detail)."""
    if obs.get("watchdog"):
        return ("inconclusive", "watchdog", "")
    if "died" in obs or "panic" in obs:
        return ("crash", "panic", obs.get("panic", obs.get("died")))
    verdict = case["verdict"]
    if not obs.get("ok"):
        code = obs["diag"]["code"]
        if verdict == IF_ACCEPTED:
            return None
        if verdict == ACCEPT:
            return ("rejected-representable", "reject:" + code, obs["diag"]["primary"]["msg"][:160])
        if verdict == REJECT and code not in ("P0002", "P0031"):
            return ("wrong-rejection", "reject:" + code, obs["diag"]["primary"]["msg"][:160])
        return None
    try:
        nf = norm.library(obs["dump"], obs.get("addrs"))
        got = extract(nf, ctx)
    except (norm.NormError, IndexError, TypeError) as e:
        if verdict == EITHER:
            return None
        return ("wrong-value", "shape", "could not find the constant in the library: %s" % e)
    if verdict == EITHER:
        return None
    if verdict == REJECT:
        return ("accepted-unrepresentable", "accepted", {"observed": got})
    # IF_ACCEPTED: a spelling whose acceptance is not demanded - but when it is accepted, the value is the written one
    want = norm.canon(case["value"])
    if want[0] == "int" and got and got[0] == "int" and want[1] == 0 and got[1] == 0:
        want = [want[0], 0, want[2]]
    if norm.diff(want, got) is not None:
        return ("wrong-value", "value", {"expected": want, "observed": got})
    return None


def shard(shard_i, nshards, payload):
    res = core.Result()
    rng = core.rng_for(payload["seed"], "c09grid")
    cases = all_cases(rng, payload["fill"])
    bad_cells = payload["bad_cells"]
    probe = core.Probe()
    try:
        for i in range(shard_i, len(cases), nshards):
            case = cases[i]
            good = True
            for ctx in case["ctxs"]:
                src = source(case, ctx)
                obs = probe.run({"op": "parse", "text": src, "file": "c09.st"})
                res.evaluations += 1
                res.count("cat:" + case["cat"])
                res.count("expect:" + case["verdict"])
                v = judge(case, ctx, obs)
                if v is None:
                    continue
                good = False
                kind, sd, detail = v
                c = {"literal": case["text"], "context": ctx, "source": src, "cell": case["cell"],
                     "expected": case["verdict"], "value": case["value"], "case": case}
                if kind == "inconclusive":
                    res.inconclusive.append({"why": sd, "case": c})
                    continue
                res.violation(kind, "%s:%s:%s" % (case["cat"], sd, cell_class(case)), detail, c)
            if good:
                res.distinct.add(core.key_of(case["cat"], case["cell"]))
                res.seen("cells", case["cat"] + "." + case["cell"].split(".")[0])
                if i < 8 * nshards and len(res.samples) < 4:
                    res.sample({"literal": case["text"], "expected": case["verdict"], "value": case["value"]})
    finally:
        probe.close()
    return res.to_dict()


def cell_class(case):
    """Coarse class of the grid cell used in signatures (so that one defect has one signature)."""
    c = case["cell"]
    if case["cat"] == "dur":
        return "compound" if c.startswith("compound") else "single"
    if case["cat"] == "str":
        return c
    if case["cat"] in ("int", "bits", "real", "bool"):
        return c.split(".")[0] if not c.startswith("b") else "plain"
    return case["cat"]


def run(tier, seed):
    core.build_probe()
    payload = {"seed": seed, "fill": 400 if tier == "quick" else 20000, "bad_cells": []}
    parts = core.run_sharded(shard, payload)
    parts.append(witnesses().to_dict())
    res = core.Result.merge(parts)
    extra = {
        "rule": "structured literal grid: integer base x magnitude class (0, 1, 2^8, 2^16, 2^32, 2^63, 2^64, 2^127, "
                "2^128 each +-1, 10^40) x underscore position x sign x type prefix; reals whole x fraction x exponent; "
                "durations unit x boundary/fractional value x prefix x sign x unit case, compound durations; TOD/date/DT "
                "each field at 0, in range, max, max+1, over (calendar-aware); strings over printable ASCII, escapes, "
                "non-ASCII; addresses prefix x size x 1-6 components x digit count; each literal as initial value and "
                "inside an expression; distinct = grid cells whose every literal agreed with the reference evaluation",
        "assumptions": ["representable = u128 integer, finite f64, i64 seconds, year 0..9999, u32 address component",
                        "not decided (either accepted): underflow of a real to zero, duration fractions that are not a "
                        "whole number of nanoseconds or have more than 15 fractional digits, escape decoding"],
        "min_evaluations": 1000,
    }
    return res, extra


def witnesses():
    res = core.Result()
    fs = [f for f in core.load_findings(PROP) if f.get("witness")]
    if not fs:
        return res
    probe = core.Probe()
    try:
        for f in fs:
            case = f["witness"]["case"]
            for ctx in case["ctxs"]:
                obs = probe.run({"op": "parse", "text": source(case, ctx), "file": "c09.st"})
                res.evaluations += 1
                res.count("witness")
                v = judge(case, ctx, obs)
                if v is None or v[0] == "inconclusive":
                    continue
                res.violation(v[0], "%s:%s:%s" % (case["cat"], v[1], cell_class(case)), v[2],
                              {"literal": case["text"], "context": ctx, "case": case, "finding": f["id"]})
    finally:
        probe.close()
    return res


def replay(case):
    core.build_probe()
    c = case["case"]
    probe = core.Probe()
    obs = probe.run({"op": "parse", "text": source(c["case"], c["context"]), "file": "c09.st"})
    probe.close()
    v = judge(c["case"], c["context"], obs)
    if v is None:
        return True, "held"
    return False, "%s %s %s" % (v[0], v[1], str(v[2])[:300])
