"""C08 - letter case, layout and comments never change what a program means.

Metamorphic monitor: the canonical spelling of a generated program and re-spellings of the same
token list (one dimension at a time, then all together) are parsed by the real parser; the
normal forms (identifier case folded, positions ignored) must be equal and the check verdict
must be the same."""
import re

import core
import gen
import norm
import spell
from c01 import known_bad_atoms, short

PROP = "C08"
DIMS = [
    ("kwcase", dict(kwcase=True)),
    ("tkwcase", dict(tkwcase=True)),
    ("idcase", dict(idcase=True)),
    ("trivia", dict(trivia=True, ff=True)),
    ("endif", dict(endif=True)),
    ("all", dict(kwcase=True, tkwcase=True, idcase=True, trivia=True, endif=True, ff=True)),
]


def observe(probe, text):
    obs = probe.run({"op": "parse", "text": text, "file": "c08.st"})
    if obs.get("watchdog"):
        return ("inconclusive", None)
    if "died" in obs or "panic" in obs:
        return ("crash", obs.get("panic", {}).get("message", "died"))
    if not obs.get("ok"):
        return ("reject", obs["diag"])
    try:
        return ("ok", (norm.library(obs["dump"], obs.get("addrs")), raw_fold(obs["dump"])))
    except norm.NormError as e:
        raise core.MachineryError("normaliser: %s" % e)


def lib_diff(v0, v1):
    """(path, a, b) where the two observed libraries differ - in normal form, else in the folded raw dump - or None"""
    d = norm.diff(v0[0], v1[0])
    if d is not None:
        return d
    return raw_diff(v0[1], v1[1])


def raw_fold(node):
    """The parser's own dump with the letter case of names folded (positions are already blanked by the probe) and
    nothing else normalised: both sides of the comparison come from the same parser, so representation choices that
    the normal form deliberately ignores (a sign as operator or as part of the literal, ...) must agree as well."""
    if isinstance(node, dict):
        if node.get("_") == "CharacterStringLiteral":
            return node
        return {k: raw_fold(v) for k, v in node.items()}
    if isinstance(node, list):
        return [raw_fold(v) for v in node]
    if isinstance(node, str):
        return node.lower()
    return node


def raw_diff(a, b, path="lib"):
    if type(a) != type(b):
        return (path, a, b)
    if isinstance(a, dict):
        for k in sorted(set(a) | set(b)):
            if k not in a or k not in b:
                return (path + "/" + k, a.get(k), b.get(k))
            d = raw_diff(a[k], b[k], path + "/" + (str(a.get("_")) if k == "#" else k))
            if d:
                return d
        return None
    if isinstance(a, list):
        if len(a) != len(b):
            return (path + "/len", len(a), len(b))
        for i, (x, y) in enumerate(zip(a, b)):
            d = raw_diff(x, y, path + "[]")
            if d:
                return d
        return None
    return None if a == b else (path, a, b)


def verdict(probe, text):
    obs = probe.run({"op": "analyze", "files": [["c08.st", text]]})
    if obs.get("watchdog") or "died" in obs or "panic" in obs:
        return None
    return bool(obs.get("ok"))


def compare(probe, res, toks, atoms, rng, dims, with_verdict, starts=None):
    if starts:
        dims = list(dims) + [("oscat", None)]
    canon = spell.canonical(toks)
    k0, v0 = observe(probe, canon)
    res.evaluations += 1
    if k0 != "ok":
        res.count("canonical-not-accepted")
        return
    verdict0 = verdict(probe, canon) if with_verdict else None
    good = True
    for dim, opts in dims:
        if dim == "oscat":
            # OSCAT description blocks (key comments around free text) in front of declarations are comments too
            text = spell.respell(spell.with_oscat(toks, starts, rng), rng, trivia=rng.random() < 0.5)
        else:
            text = spell.respell(toks, rng, **opts)
        if text == canon:
            continue
        k1, v1 = observe(probe, text)
        res.evaluations += 1
        res.count("dim:" + dim)
        case = {"canonical": canon, "respelled": text, "dimension": dim, "atoms": sorted(atoms)}
        if k1 == "inconclusive":
            res.inconclusive.append({"why": "watchdog", "case": case})
            continue
        if k1 == "crash":
            res.violation("crash", "%s:crash" % dim, v1, case)
            good = False
            continue
        if k1 == "reject":
            lab = v1["primary"]
            found = text[lab["start"]:lab["end"]][:30]
            res.violation("rejected-respelling", "%s:reject:%s" % (dim, v1["code"]),
                          {"code": v1["code"], "at": found, "msg": lab["msg"][:200]}, case)
            good = False
            continue
        d = norm.diff(v0[0], v1[0])
        if d is not None:
            path = re.sub(r"\[\d+\]", "[]", d[0])
            res.violation("different-library", "%s:diff:%s" % (dim, path),
                          {"path": d[0], "canonical": short(d[1]), "respelled": short(d[2])}, case)
            good = False
            continue
        d = raw_diff(v0[1], v1[1])
        if d is not None:
            res.violation("different-library", "%s:rawdiff:%s" % (dim, d[0][-60:]),
                          {"path": d[0], "canonical": short(d[1]), "respelled": short(d[2])}, case)
            good = False
            continue
        if verdict0 is not None:
            v = verdict(probe, text)
            if v is not None and v != verdict0:
                res.violation("different-verdict", "%s:verdict" % dim, {"canonical": verdict0, "respelled": v}, case)
                good = False
    if good:
        res.distinct.add(core.key_of(sorted(atoms)))
        for a in atoms:
            res.seen("atoms", a)
    return good


def shard(shard_i, nshards, payload):
    res = core.Result()
    seed = payload["seed"]
    bad = set(payload["bad_atoms"])
    probe = core.Probe()
    try:
        for i in range(shard_i, payload["n"], nshards):
            rng = core.rng_for(seed, "c08", i)
            g = gen.Gen(rng, avoid=bad, depth=rng.randint(1, 4))
            toks, _exp = g.library(rng.randint(1, 8) if i % 4 else 1)
            ok = compare(probe, res, toks, g.atoms, rng, DIMS * payload["rounds"], with_verdict=(i % 3 == 0),
                         starts=g.decl_starts)
            if ok and len(res.samples) < 2 and i < 4 * nshards:
                res.sample({"canonical": spell.canonical(toks)[:200],
                            "respelled": spell.respell(toks, rng, **DIMS[-1][1])[:300]})
        # one very long flat expression (hundreds to thousands of operands) under every layout: limits that count tokens
        # must not count the white space and comments between them
        for i in range(shard_i, payload.get("n_long", 12), nshards):
            rng = core.rng_for(seed, "c08long", i)
            n = rng.choice([300, 700, 1500, 2500])
            op = rng.choice(["+", "-", "*", "OR", "AND", "XOR"])
            operand = gen.I("b") if op.isalpha() else gen.I("x")
            optok = gen.K(op) if op.isalpha() else gen.O(op)
            toks = [gen.K("PROGRAM"), gen.I("p"), gen.K("VAR"), gen.I("x"), gen.O(":"), gen.K("INT"), gen.O(";"), gen.I("b"), gen.O(":"),
                    gen.K("BOOL"), gen.O(";"), gen.K("END_VAR"), operand, gen.O(":="), operand]
            for _ in range(n - 1):
                toks += [optok, operand if rng.random() < 0.9 else (gen.L("1") if not op.isalpha() else gen.K("TRUE"))]
            toks += [gen.O(";"), gen.K("END_PROGRAM")]
            res.count("long-chain")
            compare(probe, res, toks, {"expr.very-long-chain"}, rng, [("trivia", dict(trivia=True)), ("all", DIMS[-1][1])], with_verdict=True)
        # valid and single-fault units (the analyzer's verdict means something there): identifiers re-cased per occurrence
        import vgen
        for i in range(shard_i, payload["n_units"], nshards):
            rng = core.rng_for(seed, "c08v", i)
            decls = vgen.VGen(rng, avoid=payload["avoid_v"]).unit() if i % 4 != 3 else \
                vgen.VGen(rng, avoid=payload["avoid_v"]).unit(n_fbs=3, n_programs=2, with_config=False)
            planted = None
            if i % 2:
                faults = [f for f in vgen.plant_all(decls) if not f[1].endswith("rhs-enum-target")]
                # every third of them a fault about two spellings of one name (duplicate element / value / twin), where
                # the letter case of each occurrence matters most
                names2 = [f for f in faults if f[0] in ("P0003", "P0005")]
                if names2 and i % 6 == 5:
                    faults = names2
                if faults:
                    planted, _, fdecls, _ = rng.choice(faults)
                    if i % 4 == 3 and len(faults) > 1:
                        # two faults in different declarations: which of the two problems is reported must not depend
                        # on how a declaration's name is spelled
                        # (preferably two problems that one and the same rule reports, with different codes)
                        grp = [f for f in faults if f[0] in ("P0006", "P0007", "P0008", "P0009", "P0021")]
                        if len({f[0] for f in grp}) > 1:
                            planted, _, fdecls, _ = rng.choice(grp)
                            p2, _, f2, _ = rng.choice([f for f in grp if f[0] != planted])
                        else:
                            p2, _, f2, _ = rng.choice(faults)
                        ia = [k_ for k_, (x_, y_) in enumerate(zip(decls, fdecls)) if x_ != y_]
                        ib = [k_ for k_, (x_, y_) in enumerate(zip(decls, f2)) if x_ != y_]
                        if ia and ib and not set(ia) & set(ib) and len(fdecls) == len(decls) == len(f2):
                            fdecls = list(fdecls)
                            for k_ in ib:
                                fdecls[k_] = f2[k_]
                            planted = planted + "+" + p2
                            res.count("dim:idcase-unit-two-faults")
                    decls = fdecls
            canon = vgen.render_unit(decls)
            o0 = probe.run({"op": "analyze", "files": [["c08.st", canon]]})
            res.evaluations += 1
            if "ok" not in o0 or not o0["parse"][0]["ok"] or any(d["code"] == "P9999" for d in o0.get("diags", [])):
                continue
            codes0 = sorted(d["code"] for d in o0["diags"])
            good = True
            for k in range(4 if planted not in ("P0003", "P0005") else 10):
                text = vgen.recase_identifiers(canon, rng, rng.choice([0.3, 0.6, 0.9])) if k != 3 else vgen.render_unit(decls, oscat=rng)
                if text == canon:
                    continue
                o1 = probe.run({"op": "analyze", "files": [["c08.st", text]]})
                res.evaluations += 1
                dim_u = "idcase-unit" if k != 3 else "oscat-unit"
                res.count("dim:" + dim_u)
                case = {"canonical": canon, "respelled": text, "dimension": dim_u, "planted": planted}
                if "ok" not in o1:
                    res.violation("crash", dim_u + ":crash", o1.get("panic"), case)
                    good = False
                elif not o1["parse"][0]["ok"]:
                    res.violation("rejected-respelling", dim_u + ":reject", o1["parse"][0]["diag"]["primary"]["msg"][:160], case)
                    good = False
                else:
                    codes1 = sorted(d["code"] for d in o1["diags"])
                    if (not codes0) != (not codes1):
                        res.violation("different-verdict", dim_u + ":verdict", {"canonical": codes0, "respelled": codes1}, case)
                        good = False
                    elif set(codes0) != set(codes1):
                        res.violation("different-codes", dim_u + ":codes", {"canonical": codes0, "respelled": codes1}, case)
                        good = False
            if good:
                res.distinct.add(core.key_of("unit", i))
        # keyword sweep: every keyword of the token alphabet in a context where it is valid is covered by the
        # generator's atoms; END_IF chains get their own small exhaustive family
        for depth in range(1, 5):
            for mask in range(1 << depth):
                if (depth * 16 + mask) % nshards != shard_i:
                    continue
                toks = [gen.K("PROGRAM"), gen.I("p"), gen.K("VAR"), gen.I("x"), gen.O(":"), gen.K("BOOL"), gen.O(";"),
                        gen.K("END_VAR")]
                for _ in range(depth):
                    toks += [gen.K("IF"), gen.I("x"), gen.K("THEN")]
                toks += [gen.I("x"), gen.O(":="), gen.K("TRUE"), gen.O(";")]
                for j in range(depth):
                    toks.append(gen.K("END_IF"))
                    if not (mask >> j) & 1:
                        toks.append(gen.O(";"))
                toks.append(gen.K("END_PROGRAM"))
                full = []
                for t in toks:
                    full.append(t)
                # reference spelling: all semicolons present
                ref = [gen.K("PROGRAM"), gen.I("p"), gen.K("VAR"), gen.I("x"), gen.O(":"), gen.K("BOOL"), gen.O(";"),
                       gen.K("END_VAR")] + [gen.K("IF"), gen.I("x"), gen.K("THEN")] * depth + \
                      [gen.I("x"), gen.O(":="), gen.K("TRUE"), gen.O(";")] + [gen.K("END_IF"), gen.O(";")] * depth + \
                      [gen.K("END_PROGRAM")]
                k0, v0 = observe(probe, spell.canonical(ref))
                k1, v1 = observe(probe, spell.canonical(toks))
                res.evaluations += 2
                res.count("endif-chain")
                case = {"canonical": spell.canonical(ref), "respelled": spell.canonical(toks), "dimension": "endif-chain"}
                if k0 == "ok" and k1 != "ok":
                    res.violation("rejected-respelling", "endif-chain:reject", str(v1)[:200], case)
                elif k0 == "ok" and lib_diff(v0, v1) is not None:
                    res.violation("different-library", "endif-chain:diff", str(lib_diff(v0, v1))[:200], case)
                else:
                    res.distinct.add(core.key_of("endif", depth, mask))
    finally:
        probe.close()
    return res.to_dict()


def run(tier, seed):
    core.build_probe()
    bad = sorted(known_bad_atoms("C01") | known_bad_atoms(PROP))
    avoid_v = sorted({a for f in core.load_findings("C02") if f.get("status") == "open" for a in f.get("atoms", [])})
    payload = {"seed": seed, "bad_atoms": bad, "n": 1500 if tier == "quick" else 40000,
               "rounds": 1 if tier == "quick" else 2, "avoid_v": avoid_v, "n_units": 300 if tier == "quick" else 6000}
    parts = core.run_sharded(shard, payload)
    parts.append(witnesses().to_dict())
    res = core.Result.merge(parts)
    extra = {
        "rule": "generated programs (atoms the parser is known not to accept are left out: they cannot be compared) "
                "spelled canonically and re-spelled along one dimension at a time - keyword case, textual-keyword "
                "case (INTERVAL, PRIORITY, qualifiers, T#, units), identifier case per occurrence, trivia at every "
                "soft token boundary (blanks, tabs, LF, CRLF, FF, single/multi-line/nested-looking/star-ended "
                "comments), optional ';' after END_IF - and all together; plus every END_IF chain of depth 1-4 with "
                "every subset of semicolons; distinct = distinct atom sets whose every re-spelling agreed",
        "assumptions": ["trivia is only inserted where the canonical spelling has a blank (never inside INT#5, -5, "
                        "1..5, a.b, a[)", "verdict compared as accepted/rejected by analyze() on a third of the cases"],
        "min_evaluations": 500,
    }
    return res, extra


def witnesses():
    res = core.Result()
    fs = [f for f in core.load_findings(PROP) if f.get("witness")]
    if not fs:
        return res
    probe = core.Probe()
    try:
        for f in fs:
            w = f["witness"]
            k0, v0 = observe(probe, w["canonical"])
            k1, v1 = observe(probe, w["respelled"])
            res.evaluations += 2
            res.count("witness")
            dim = w.get("dimension", "witness")
            case = dict(w, finding=f["id"])
            if k0 != "ok":
                res.violation("rejected-respelling", "%s:canonical-rejected" % dim, str(v0)[:200], case)
            elif k1 == "reject":
                res.violation("rejected-respelling", "%s:reject:%s" % (dim, v1["code"]), v1["primary"]["msg"][:200], case)
            elif k1 == "crash":
                res.violation("crash", "%s:crash" % dim, v1, case)
            elif k1 == "ok" and lib_diff(v0, v1) is not None:
                d = lib_diff(v0, v1)
                res.violation("different-library", "%s:diff:%s" % (dim, re.sub(r"\[\d+\]", "[]", d[0])), short(d), case)
    finally:
        probe.close()
    return res


def replay(case):
    core.build_probe()
    c = case["case"]
    probe = core.Probe()
    k0, v0 = observe(probe, c["canonical"])
    k1, v1 = observe(probe, c["respelled"])
    probe.close()
    if k0 != "ok":
        return True, "canonical not accepted (%s): nothing to compare" % k0
    if k1 != "ok":
        return False, "respelled: %s %s" % (k1, str(v1)[:300])
    d = lib_diff(v0, v1)
    if d:
        return False, "libraries differ at %s: %s vs %s" % (d[0], short(d[1]), short(d[2]))
    return True, "held"
