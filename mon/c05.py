"""C05 - every reported position points at the text it is about.

Monitors over observations of the real lexer / parser / analyzer:
 1. tiling      tokens (and lexical-error spans) are contiguous from 0 to len, on character
                boundaries, and token.text == source[start..end] (waived inside an OSCAT
                description body, which is blanked by design; offsets must still tile);
 2. line/col    token line = number of line feeds before its start; column = distance from the line
                start in bytes, characters or UTF-16 units (any one of them);
 3. id spans    every identifier of the parsed library carries the span of a token with its
                spelling, and the file id given to parse_program;
 4. labels      every diagnostic label names a file of the set, lies inside it on character
                boundaries, and the primary label covers a spelling the planter registered for it
                (for P0002 / P0031: the text quoted in its own message);
 5. rendering   the CLI's file:line:col equals the reference line/column of the label offset."""
import os
import re
import shutil

import core
import gen
import spell
import vgen
from c01 import known_bad_atoms

PROP = "C05"
ELEMENTARY = {t.lower() for t in gen.ELEM_TYPES} | {"time_of_day", "date_and_time"}
OSCAT_OPEN = "(*@KEY@:DESCRIPTION*)"
OSCAT_CLOSE = "(*@KEY@:END_DESCRIPTION*)"


def u16(s):
    return len(s.encode("utf-16-le")) // 2


def ref_linecol(text, offset):
    b = text.encode("utf-8")[:offset]
    try:
        prefix = b.decode("utf-8")
    except UnicodeDecodeError:
        return None
    line = prefix.count("\n")
    last = prefix.rfind("\n")
    seg = prefix[last + 1:]
    return line, (len(seg.encode("utf-8")), len(seg), u16(seg))


def check_tokens(text, obs, oscat):
    """Returns None or (kind, sig, detail)."""
    data = text.encode("utf-8")
    toks = [t for t in obs["tokens"] if not (t[5] == "" and t[0] == "Semicolon")]
    spans = [(t[1], t[2], "tok", t) for t in toks]
    for d in obs.get("diags", []):
        if d["code"] == "P0031":
            spans.append((d["primary"]["start"], d["primary"]["end"], "err", d))
    spans.sort(key=lambda x: (x[0], x[1]))
    pos = 0
    body = None
    if oscat:
        a = data.find(OSCAT_OPEN.encode())
        b = data.find(OSCAT_CLOSE.encode())
        if 0 <= a < b:
            body = (a + len(OSCAT_OPEN), b)
    ff_seen = False
    for start, end, kind, item in spans:
        if start != pos:
            return ("not-contiguous", "tiling:gap" if start > pos else "tiling:overlap",
                    {"expected_start": pos, "start": start, "end": end, "item": str(item)[:120]})
        if end < start or end > len(data):
            return ("out-of-range", "tiling:range", {"start": start, "end": end, "len": len(data)})
        try:
            piece = data[start:end].decode("utf-8")
        except UnicodeDecodeError:
            return ("not-on-char-boundary", "tiling:boundary", {"start": start, "end": end})
        if kind == "tok":
            t = item
            in_body = body is not None and start >= body[0] and end <= body[1]
            if t[5] != piece and not in_body:
                return ("text-mismatch", "tiling:text", {"token_text": t[5][:40], "source_slice": piece[:40], "start": start})
            rc = ref_linecol(text, start)
            if rc is not None and not in_body:
                line, cols = rc
                # the column counts characters: the unit of the positions the CLI prints for labels (codespan), so that
                # "at line L column C" in a message and the position drawn for the same label agree
                if (t[3] != line or t[4] != cols[1]):
                    return ("wrong-line-col", "linecol:%s" % ("line" if t[3] != line else "col"),
                            {"token": t[5][:30], "reported": [t[3], t[4]], "reference_line": line, "reference_cols": cols})
        pos = end
    if pos != len(data):
        return ("not-contiguous", "tiling:tail", {"covered": pos, "len": len(data)})
    return None


def check_ids(text, file, obs_parse, tokens):
    data = text.encode("utf-8")
    by_span = {}
    for t in tokens:
        by_span[(t[1], t[2])] = t
    for orig, start, end, fid in obs_parse.get("ids", []):
        if orig == "" or orig.lower() in ELEMENTARY:
            continue
        if start == 0 and end == 0 and data[:0].decode() != orig:
            # ids the parser synthesises (e.g. the type of a typed literal) carry no position: only real spellings count
            t0 = by_span.get((0, 0))
            return ("id-without-span", "idspan:none", {"id": orig})
        t = by_span.get((start, end))
        if t is None:
            return ("id-span-not-a-token", "idspan:nomatch", {"id": orig, "span": [start, end]})
        if t[5].lower() != orig.lower():
            return ("id-span-other-text", "idspan:text", {"id": orig, "token": t[5][:30]})
        if fid != file:
            return ("id-wrong-file", "idspan:file", {"id": orig, "file": fid})
    return None


QUOTED = re.compile(r"Found text '(.*?)' that matched|The text '(.*)' is not valid", re.S)


def check_label(label, files, primary, code, spellings, msg):
    texts = dict(files)
    if label["file"] not in texts:
        return ("label-unknown-file", "label:file:%s" % code, {"file": label["file"]})
    data = texts[label["file"]].encode("utf-8")
    s, e = label["start"], label["end"]
    if not (0 <= s <= e <= len(data)):
        return ("label-out-of-range", "label:range:%s" % code, {"start": s, "end": e, "len": len(data)})
    try:
        piece = data[s:e].decode("utf-8")
    except UnicodeDecodeError:
        return ("label-not-on-char-boundary", "label:boundary:%s" % code, {"start": s, "end": e})
    if not primary:
        return None
    if code in ("P0002", "P0031"):
        m = QUOTED.search(msg or "")
        if m:
            q = m.group(1) if m.group(1) is not None else m.group(2)
            # (messages that show a line break as \\n: accepted; a backslash that is part of the text stays one)
            if piece != q and piece != q.replace("\\n", "\n").replace("\\r", "\r"):
                return ("label-not-quoted-text", "label:quoted:%s" % code, {"label_text": piece[:40], "quoted": q[:40]})
        return None
    if spellings is not None:
        low = piece.lower()
        if not any(sp.lower() in low or low in sp.lower() and low for sp in spellings):
            return ("label-elsewhere", "label:spelling:%s" % code, {"label_text": piece[:60], "expected_one_of": spellings})
    return None


SECTION = re.compile(r"^\s*┌─ (.*):(\d+):(\d+)\s*$")
SRC_LINE = re.compile(r"^\s*(\d+) │ (.*)$")
MARK_LINE = re.compile(r"^\s*│ ")
MARK_RUN = re.compile(r"\x1b\[3[14]m([\^]+|-+)\x1b\[0m")


def cli_marked(err_raw):
    """What the CLI underlines: [{code, sections: [(file, line, col)], marked: [(file, line, underlined text)]}] from
    the coloured codespan output (marker runs are the coloured '^^^' / '---' directly below an excerpt line)."""
    printed = []
    cur = None
    sec_file = None
    last_src = None
    for raw in err_raw.splitlines():
        line = core.ANSI.sub("", raw)
        m = core.DIAG_HEAD.match(line)
        if m:
            cur = {"code": m.group(1), "sections": [], "marked": [], "odd": False}
            printed.append(cur)
            sec_file = last_src = None
            continue
        if cur is None:
            continue
        m = SECTION.match(line)
        if m:
            sec_file = os.path.basename(m.group(1))
            cur["sections"].append((sec_file, int(m.group(2)), int(m.group(3))))
            last_src = None
            continue
        m = SRC_LINE.match(line)
        if m and sec_file is not None:
            last_src = (int(m.group(1)), m.group(2))
            continue
        if MARK_LINE.match(line) and last_src is not None:
            # column of every coloured marker run, measured in the uncoloured line
            pos = 0
            plain = ""
            k = 0
            runs = []
            for mm in re.finditer(r"\x1b\[[0-9;]*m", raw):
                plain += raw[k:mm.start()]
                k = mm.end()
            plain += raw[k:]
            start_of_text = plain.index("│ ") + 2
            # walk again, this time remembering where each marker run lands
            k = 0
            out_len = 0
            spans = []
            for mm in re.finditer(r"\x1b\[[0-9;]*m", raw):
                seg = raw[k:mm.start()]
                if seg and set(seg) <= {"^"} or seg and set(seg) <= {"-"}:
                    spans.append((out_len - start_of_text, len(seg)))
                out_len += len(seg)
                k = mm.end()
            for col, n in spans:
                if col < 0:
                    cur["odd"] = True
                    continue
                cur["marked"].append((sec_file, last_src[0], last_src[1][col:col + n]))
            if spans:
                last_src = None      # only the marker line directly under the excerpt line
    return printed


def cli_sections(err_raw, diags, files, code, stats=None):
    """codespan draws one section ('┌─ file:line:col' + excerpt) per file that a diagnostic has labels in and underlines
    every label.  For every printed diagnostic of the planted code whose labels are all on one line each: the multiset
    of underlined texts equals the multiset of label texts of some in-process diagnostic of that code (which of two
    equally good partner declarations a rule names may differ from run to run; what is underlined may not)."""
    texts = dict(files)
    cands = []
    for d in diags:
        if d["code"] != code:
            continue
        sl = []
        for lab in [d["primary"]] + list(d["secondary"]):
            if lab["file"] not in texts:
                sl = None
                break
            piece = texts[lab["file"]].encode("utf-8")[lab["start"]:lab["end"]].decode("utf-8", "replace")
            if "\n" in piece or not piece or not piece.isascii():
                sl = None
                break
            sl.append(piece.lower())
        if sl is None:
            return None
        cands.append(sorted(sl))
    if not cands:
        return None
    for p in cli_marked(err_raw):
        if p["code"] != code or not p["sections"] or p["odd"]:
            continue
        got = sorted(t.lower() for _f, _l, t in p["marked"])
        # two labels with the same span are drawn once
        if not any(got == c or sorted(set(got)) == sorted(set(c)) for c in cands):
            return ("cli-underlines", "cli:underlined:%s" % code,
                    {"underlined": p["marked"][:6], "label_texts_in_process": cands[:4], "sections": p["sections"]})
        if stats is not None:
            stats["cli-underlined-diags"] = stats.get("cli-underlined-diags", 0) + 1
            stats["cli-underlined-labels"] = stats.get("cli-underlined-labels", 0) + len(p["marked"])
            if len({f_ for f_, _l, _t in p["marked"]}) > 1:
                stats["cli-underlined-multifile"] = stats.get("cli-underlined-multifile", 0) + 1
        for f_, l_, t_ in p["marked"]:
            real = texts.get(f_, "").split("\n")
            if l_ - 1 >= len(real) or t_ not in real[l_ - 1].replace("\t", "    ").replace("\r", ""):
                return ("cli-underlines", "cli:excerpt:%s" % code, {"file": f_, "line": l_, "underlined": t_})
    return None


def add_oscat(text, rng, non_ascii):
    body = rng.choice(["any text\nsecond line", "x", "", "a (* b *) c"]) if not non_ascii else \
        rng.choice(["ébc", "日本語\nzwei", "grüße €", "ñ", "🙂", "a🙂b\n𝄞"])
    nl = rng.choice(["\n", "\r\n"])
    # the keys on lines of their own, or on the line of the free text - and of the code that follows
    a, b, c = rng.choice([(nl, nl, nl), (nl, nl, nl), (" ", " ", " "), ("", "", " "), (nl, " ", nl), (" ", nl, "")])
    hdr = "%s%s%s%s%s%s" % (OSCAT_OPEN, a, body.replace("\n", nl), b, OSCAT_CLOSE, c)
    return hdr + text


def relayout(text):
    """Same length, one line break moved (before anything a diagnostic could point at later in the text)."""
    k1 = text.find("\n")
    k2 = text.find(" ", k1 + 2) if k1 >= 0 else -1
    if k1 <= 0 or k2 <= 0:
        return None
    return text[:k1] + " " + text[k1 + 1:k2] + "\n" + text[k2 + 1:]


def lsp_positions(res, probe, tmp, text, code, case):
    """The start of every published diagnostic must be the reference line/character of a label offset that the
    analyzer reports for the same text - also after edits that keep the document's length."""
    import lsp
    variants = [text]
    r = relayout(text)
    if r:
        variants += [r, text, "\n" + text[:-1] if text.endswith("\n") else text]
    s = lsp.Session(tmp)
    uri = "file:///w/pos.st"
    try:
        for v, doc in enumerate(variants):
            if v == 0:
                s.open(uri, doc, 1)
            else:
                s.change(uri, [doc], v + 1)
            rid = s.tokens(uri)
            resp, before = s.wait_response(rid, 20.0)
            res.evaluations += 1
            res.count("lsp-position")
            if resp in (None, "timeout"):
                return
            pubs = [m for m in before if m.get("method") == "textDocument/publishDiagnostics"]
            if not pubs:
                continue
            obs = probe.run({"op": "analyze", "files": [["/w/pos.st", doc]]})
            if "diags" not in obs:
                continue
            refs = set()
            for d in obs["diags"] + [p_["diag"] for p_ in obs.get("parse", []) if not p_["ok"]]:
                rc = ref_linecol(doc, d["primary"]["start"])
                if rc:
                    for c in rc[1]:
                        refs.add((d["code"], rc[0], c))
            for pd in pubs[-1]["params"]["diagnostics"]:
                got = (pd.get("code"), pd["range"]["start"]["line"], pd["range"]["start"]["character"])
                if pd.get("code") in ("P9999", "P0030"):
                    continue
                if got not in refs:
                    res.violation("lsp-position", "lsp:linecol:%s" % ("after-edit" if v else "open"),
                                  {"published": got, "reference": sorted(refs)[:6], "step": v}, dict(case, text=doc))
                    return
    finally:
        s.shutdown(5.0)
        s.kill()


def shard(shard_i, nshards, payload):
    res = core.Result()
    probe = core.Probe()
    bad01 = set(payload["bad_c01"])
    tmp = core.worker_tmpdir("c05")
    try:
        # ---- (a)(b) tokens and identifier spans of generated sources
        for i in range(shard_i, payload["n_sources"], nshards):
            rng = core.rng_for(payload["seed"], "c05", i)
            g = gen.Gen(rng, avoid=bad01, depth=rng.randint(1, 3))
            toks, _ = g.library(rng.randint(1, 5))
            text = spell.respell(toks, rng, kwcase=rng.random() < 0.3, idcase=rng.random() < 0.3, trivia=True,
                                 ff=(i % 11 == 0))
            kind = "plain"
            oscat = False
            if i % 5 == 1:
                if rng.random() < 0.3:
                    text = text.replace("\r\n", "\n").replace("\n", "\r\n")
                text = add_oscat(text, rng, non_ascii=(i % 10 == 1))
                oscat = True
                kind = "oscat-nonascii" if i % 10 == 1 else "oscat"
            if i % 7 == 2:
                k = rng.randrange(len(text) + 1)
                text = text[:k] + rng.choice(["?", "@", "~", "`", "é?"]) + text[k:]
                kind += "+lexerr"
            elif i % 7 == 5:
                # several pieces of text that are not IEC 61131-3, also pieces that run over line ends: braces (pragmas
                # of other dialects), quotes that are never closed - one of each kind on different lines -, stray
                # characters; whatever the lexer makes of them, what follows keeps its own offset, line and column
                pool = ["?", "@", "{", "}", "{attribute 'hide'}", "{attribute 'symbol' := 'read',\n attribute 'hide'}", "{ x\r\n\r\n y }",
                        "{\n}", "#pragma once", "\\", "§", "¤¤"]
                for piece in rng.sample(pool, rng.randint(1, 4)):
                    k = rng.randrange(len(text) + 1)
                    text = text[:k] + piece + text[k:]
                if rng.random() < 0.5:
                    # unclosed strings: the text gets no other quote of that kind, so the quote stays open to the end
                    text = text.replace("'", " ").replace('"', " ")
                    lines = text.split("\n")
                    q1, q2 = rng.sample(["'", '"'], 2)
                    a = rng.randrange(len(lines))
                    lines[a] = lines[a] + " " + q1 + "never closed"
                    if rng.random() < 0.7 and len(lines) > 1:
                        b = rng.randrange(len(lines))
                        lines[b] = lines[b] + " " + q2 + "neither"
                    text = "\n".join(lines)
                kind += "+lexerrs"
            if i % 9 == 4:
                # the document while it is being typed: cut off, and ending in a non-ASCII character without a line break
                import hostile
                text = hostile.truncate_with_tail(text, rng)
                kind += "+tail"
            if i % 11 == 7 and "'" not in text:
                # character strings that run over line ends (the lexer takes them as one token): what follows them is on a
                # later line
                text += "\nPROGRAM mls%d\nVAR s : STRING; w : WSTRING; x : INT; END_VAR\ns := 'a\nb';x := 1;\n  x := 2; w := \"é\r\n\r\nü\"; x := 3;\nEND_PROGRAM\n" % i
                kind += "+multi-line-string"
            if i % 13 == 3:
                # text handed over from memory (an editor buffer) may start with a byte order mark or another
                # invisible character: it is not a token, and everything after it keeps its own position
                text = rng.choice(["\ufeff", "\ufeff\ufeff", "\u200b", "\u00a0", "\ufeff\r\n"]) + text
                kind += "+bom"
            ot = probe.run({"op": "tokenize", "text": text, "file": "c05.st"})
            res.evaluations += 1
            res.count("source:" + kind)
            case = {"text": text, "kind": kind}
            if ot.get("watchdog") or "died" in ot or "panic" in ot:
                res.violation("crash", "crash", ot.get("panic"), case)
                continue
            v = check_tokens(text, ot, oscat)
            if v:
                res.violation(v[0], v[1] + (":oscat-nonascii" if "oscat-nonascii" in kind else ""), v[2], case)
                continue
            op = probe.run({"op": "parse", "text": text, "file": "c05.st", "dump": False})
            if op.get("ok"):
                v = check_ids(text, "c05.st", op, ot["tokens"])
                if v:
                    res.violation(v[0], v[1], v[2], case)
                    continue
                res.count("ids_checked", len(op.get("ids", [])))
            elif "diag" in op:
                v = check_label(op["diag"]["primary"], [("c05.st", text)], True, op["diag"]["code"], None,
                                op["diag"]["primary"]["msg"])
                if v:
                    res.violation(v[0], v[1], v[2], case)
                    continue
                if i % 2 == 0 and core.PLC_BIN and "\r" not in text and "\f" not in text and not text.startswith("\ufeff"):
                    # (a file that starts with U+FEFF is a file with a byte order mark: the CLI reads another text)
                    # `echo` and `check` draw the problem of a file that does not parse at the line and column of its label
                    fpath = os.path.join(tmp, "e%d.st" % i)
                    open(fpath, "w").write(text)
                    rc_ = ref_linecol(text, op["diag"]["primary"]["start"])
                    for cmd in ("echo", "check"):
                        r = core.run_cli([cmd, fpath], tmp)
                        res.evaluations += 1
                        res.count("cli-position:" + cmd)
                        drawn = [(c[3], c[4]) for c in core.parse_cli_diags(r["err"]) if c[0] == op["diag"]["code"] and c[2]]
                        if rc_ and drawn and not any(l_ == rc_[0] + 1 and (c_ - 1) == rc_[1][1] for l_, c_ in drawn):
                            res.violation("cli-position", "cli:%s:linecol:%s" % (cmd, op["diag"]["code"]),
                                          {"cli": drawn[:3], "reference": [rc_[0] + 1, rc_[1][1] + 1]}, case)
                    os.unlink(fpath)
            res.distinct.add(core.key_of(text))
            res.count("tokens_checked", len(ot["tokens"]))
            if len(res.samples) < 1:
                res.sample({"text": text[:160], "first_tokens": ot["tokens"][:5]})
        # ---- (c0) one problem per occurrence: variables of standard function block types the analyzer does not support
        # (P0029), declared in different blocks, POUs and files - every diagnostic is about its own occurrence
        for i in range(shard_i, max(64, payload["n_units"] // 4), nshards):
            rng = core.rng_for(payload["seed"], "c05std", i)
            std = ["TON", "TOF", "TP", "CTU", "CTD", "R_TRIG", "SR"]
            nfiles = rng.randint(1, 3)
            files = []
            occ = []            # (file, byte offset of the type name)
            for f_ in range(nfiles):
                name = "s%d.st" % f_
                text = rng.choice(["", "(* é *)\n", "\n\n"])
                for p_ in range(rng.randint(1, 3)):
                    text += "FUNCTION_BLOCK U%d_%d_%d\n" % (i, f_, p_)
                    for b_ in range(rng.randint(1, 2)):
                        text += "VAR\n"
                        for v_ in range(rng.randint(1, 2)):
                            ty = rng.choice(std[:2] if rng.random() < 0.6 else std)      # the same type again and again
                            ty = ty if rng.random() < 0.7 else ty.lower()
                            text += "  t%d_%d : " % (b_, v_)
                            occ.append((name, len(text.encode("utf-8"))))
                            text += ty + ";\n"
                        text += "END_VAR\n"
                    text += "END_FUNCTION_BLOCK\n"
                files.append([name, text])
            obs = probe.run({"op": "analyze", "files": files})
            res.evaluations += 1
            res.count("std-type-units")
            case = {"files": files, "planted": "P0029", "site": "%d occurrences" % len(occ)}
            if obs.get("watchdog") or "died" in obs or "panic" in obs:
                res.violation("crash", "crash", obs.get("panic"), case)
                continue
            got = sorted((d["primary"]["file"], d["primary"]["start"]) for d in obs.get("diags", []) if d["code"] == "P0029")
            if not got:
                res.count("std-type-units-without-P0029")
                continue
            if got != sorted(occ):
                res.violation("wrong-label", "label:per-occurrence:P0029",
                              {"labels": got[:8], "occurrences": sorted(occ)[:8]}, case)
            else:
                res.distinct.add(core.key_of("std", i))
        # ---- (c)(d) diagnostics of planted faults
        for i in range(shard_i, payload["n_units"], nshards):
            rng = core.rng_for(payload["seed"], "c05diag", i)
            decls = vgen.VGen(rng, prefix="A", avoid=payload["avoid"]).unit()
            comp = vgen.render_unit(vgen.VGen(rng, prefix="C", avoid=payload["avoid"]).unit(with_config=False))
            faults = [f for f in vgen.plant_all(decls) if not f[1].endswith("rhs-enum-target")]
            rng.shuffle(faults)
            # a same-named twin of a declaration: a diagnostic with two labels (in two files when the unit is split)
            named = [d for d in decls if d["k"] in ("enum", "struct", "subrange", "array", "fb", "program", "function")]
            for d in named[:2]:
                if d["k"] in ("fb", "program"):
                    kw = "FUNCTION_BLOCK" if d["k"] == "fb" else "PROGRAM"
                    twin = "%s %s VAR zz : INT; END_VAR zz := 1; END_%s" % (kw, d["name"], kw)
                elif d["k"] == "function":
                    twin = "FUNCTION %s : INT VAR_INPUT zz : INT; END_VAR %s := zz; END_FUNCTION" % (d["name"], d["name"])
                else:
                    twin = "TYPE %s : (dupa, dupb); END_TYPE" % d["name"]
                tw = {"k": "raw", "text": twin}
                faults.insert(0, ("DUP", "twin:%s" % d["k"], ([tw] + decls) if rng.random() < 0.5 else (decls + [tw]),
                                  [d["name"]]))
            # a recursion cycle with users of its members declared before, between and after them: the label names a member
            cyc = [{"k": "raw", "text": "FUNCTION_BLOCK CycInnocent%d\nVAR a : CycAlpha%d; END_VAR\nEND_FUNCTION_BLOCK" % (i, i)},
                   {"k": "raw", "text": "FUNCTION_BLOCK CycAlpha%d\nVAR b : CycBeta%d; END_VAR\nEND_FUNCTION_BLOCK" % (i, i)},
                   {"k": "raw", "text": "FUNCTION_BLOCK CycBeta%d\nVAR a : CycAlpha%d; END_VAR\nEND_FUNCTION_BLOCK" % (i, i)},
                   {"k": "raw", "text": "PROGRAM CycMain%d\nVAR i : CycInnocent%d; END_VAR\ni();\nEND_PROGRAM" % (i, i)}]
            order = rng.sample(range(4), 4)
            faults.insert(0, ("P0010", "cycle-with-users", [cyc[j_] for j_ in order[:2]] + decls[:2] + [cyc[j_] for j_ in order[2:]],
                              ["CycAlpha%d" % i, "CycBeta%d" % i]))
            seen = set()
            for code, site, mutant, spellings in faults:
                if (code, site.split(":")[0]) in seen or len(seen) >= payload["faults_per_unit"]:
                    continue
                seen.add((code, site.split(":")[0]))
                text = vgen.render_unit(mutant)
                if rng.random() < 0.3:
                    text = "(* é ü *)\n" + text
                files = [("comp.st", comp), ("unit.st", text)]
                if rng.random() < 0.4 and len(mutant) > 1:
                    # the unit spread over several files: labels of one diagnostic may then lie in different files
                    k = rng.randint(2, 3)
                    buckets = [[] for _ in range(k)]
                    for dd in mutant:
                        buckets[rng.randrange(k)].append(dd)
                    files = [("comp.st", comp)] + [("unit%d.st" % j, ("(* é ü *)\n" * (j % 2)) + vgen.render_unit(b))
                                                    for j, b in enumerate(buckets) if b]
                    res.count("diag-unit-split")
                if rng.random() < 0.5:
                    files.reverse()
                obs = probe.run({"op": "analyze", "files": [[n, t] for n, t in files]})
                res.evaluations += 1
                res.count("diag:" + code)
                case = {"files": files, "planted": code, "site": site}
                if obs.get("watchdog") or "died" in obs or "panic" in obs:
                    continue
                if code == "DUP":
                    got = [d["code"] for d in obs.get("diags", []) if d["code"] in ("P0019", "P0020")]
                    if not got:
                        continue
                    code = got[0]
                good = True
                for d in obs.get("diags", []):
                    if d["code"] == "P9999":
                        continue
                    sp = spellings if d["code"] == code else None
                    for lab, primary in [(d["primary"], True)] + [(x, False) for x in d["secondary"]]:
                        v = check_label(lab, files, primary, d["code"], sp, lab.get("msg"))
                        if v:
                            res.violation(v[0], v[1], v[2], case)
                            good = False
                            break
                if good and site.endswith("-repeated"):
                    # a label that says "First ..." covers the first spelling of the name in its file
                    for d in obs.get("diags", []):
                        for lab in [d["primary"]] + list(d["secondary"]):
                            if d["code"] == code and (lab.get("msg") or "").startswith("First") and lab["file"] in dict(files):
                                ftext = dict(files)[lab["file"]]
                                m_ = re.search(r"(?i)(?<![A-Za-z0-9_])%s(?![A-Za-z0-9_])" % re.escape(spellings[0]), ftext)
                                first_off = len(ftext[:m_.start()].encode("utf-8")) if m_ else None
                                if first_off is not None and lab["start"] != first_off:
                                    res.violation("label-elsewhere", "label:first-occurrence:%s" % code,
                                                  {"label_start": lab["start"], "first_occurrence": first_off,
                                                   "message": lab.get("msg")}, case)
                                    good = False
                                    break
                        if not good:
                            break
                    res.count("first-occurrence-checked")
                if good:
                    res.distinct.add(core.key_of("diag", code, site))
                if good and i % 4 == 1 and len(files) == 2:
                    lsp_positions(res, probe, tmp, text, code, case)
                # (5) the CLI's line:col for the planted code
                # (which member of a cycle is named may differ from run to run: nothing to compare across processes there)
                if good and i % 2 == 0 and core.PLC_BIN and site != "cycle-with-users":
                    d_ = os.path.join(tmp, "u%d" % i)
                    os.makedirs(d_, exist_ok=True)
                    for n, t in files:
                        open(os.path.join(d_, n), "w").write(t)
                    r = core.run_cli(["check", d_], tmp)
                    res.evaluations += 1
                    res.count("cli-position")
                    cli = [(c[0], os.path.basename(c[2] or ""), c[3], c[4]) for c in core.parse_cli_diags(r["err"])]
                    v = cli_sections(r["err_raw"], obs.get("diags", []), files, code, res.counters)
                    if v:
                        res.violation(v[0], v[1], v[2], case)
                    for dg in obs.get("diags", []):
                        if dg["code"] != code:
                            continue
                        lab = dg["primary"]
                        rc = ref_linecol(dict(files)[lab["file"]], lab["start"])
                        if rc is None:
                            continue
                        line, cols = rc
                        mine = [c for c in cli if c[0] == code and c[1] == lab["file"]]
                        if mine and not any(c[2] == line + 1 and (c[3] - 1) in cols for c in mine):
                            # the CLI may have reported the other of two equally valid diagnostics (hash order):
                            # only a position that matches no diagnostic of that code in-process is wrong
                            res.violation("cli-position", "cli:linecol:%s" % code,
                                          {"cli": mine, "reference": [line + 1, [c + 1 for c in cols]]}, case)
                    shutil.rmtree(d_, ignore_errors=True)
    finally:
        probe.close()
        shutil.rmtree(tmp, ignore_errors=True)
    return res.to_dict()


def run(tier, seed):
    core.build_probe()
    core.build_plc()
    avoid = sorted({a for f in core.load_findings("C02") if f.get("status") == "open" for a in f.get("atoms", [])})
    payload = {"seed": seed, "avoid": avoid, "bad_c01": sorted(known_bad_atoms("C01")),
               "n_sources": 3000 if tier == "quick" else 100000, "n_units": 200 if tier == "quick" else 5000,
               "faults_per_unit": 12 if tier == "quick" else 30}
    parts = core.run_sharded(shard, payload)
    # the witnesses of findings (open or fixed) that carry a text are judged again on every run
    w = core.Result()
    for f in core.load_findings(PROP):
        if f.get("witness") and "text" in f["witness"]:
            ok, msg = replay({"case": {"text": f["witness"]["text"]}})
            w.evaluations += 1
            w.count("witness")
            if not ok:
                w.violation("witness", "witness:" + f["id"], msg, {"text": f["witness"]["text"], "finding": f["id"]})
    parts.append(w.to_dict())
    res = core.Result.merge(parts)
    extra = {
        "rule": "generated sources in random spellings (single/multi-line and non-ASCII comments, CRLF, form feed in a "
                "few, OSCAT description headers with ASCII and non-ASCII bodies, a lexical error at a random position in "
                "every 7th) are tokenized and parsed: tiling, text equality, line/column, identifier spans and file ids; "
                "every diagnostic of the planted rule faults (two-file sets, shuffled file order, non-ASCII prefix) is "
                "checked for file, range, character boundary and the spelling it must cover; a quarter is also run "
                "through `ironplcc check` and the printed line:col compared; distinct = distinct sources / (code, site) "
                "pairs whose every position was right",
        "assumptions": ["columns accepted in bytes, characters or UTF-16 units", "a mismatch only explainable by a form "
                        "feed being counted as a line end is not judged", "identifiers with an empty spelling or an "
                        "elementary type name are synthetic and skipped"],
        "min_evaluations": 1000,
    }
    return res, extra


def replay(case):
    core.build_probe()
    c = case["case"]
    probe = core.Probe()
    if "text" in c:
        ot = probe.run({"op": "tokenize", "text": c["text"], "file": "c05.st"})
        v = check_tokens(c["text"], ot, OSCAT_OPEN in c["text"])
        if v is None:
            op = probe.run({"op": "parse", "text": c["text"], "file": "c05.st", "dump": False})
            if op.get("ok"):
                v = check_ids(c["text"], "c05.st", op, ot["tokens"])
        probe.close()
        return v is None, str(v)[:400]
    files = [tuple(f) for f in c["files"]]
    obs = probe.run({"op": "analyze", "files": [list(f) for f in files]})
    probe.close()
    code = c.get("planted")
    if code == "DUP":
        got = [d["code"] for d in obs.get("diags", []) if d["code"] in ("P0019", "P0020")]
        code = got[0] if got else code
    for d in obs.get("diags", []):
        if d["code"] == "P9999":
            continue
        for lab, primary in [(d["primary"], True)] + [(x, False) for x in d["secondary"]]:
            v = check_label(lab, files, primary, d["code"], None, lab.get("msg"))
            if v:
                return False, str(v)[:400]
    core.build_plc()
    tmp = core.worker_tmpdir("c05replay")
    try:
        d_ = os.path.join(tmp, "u")
        os.makedirs(d_, exist_ok=True)
        for n, t in files:
            open(os.path.join(d_, n), "w").write(t)
        for _ in range(4):
            r = core.run_cli(["check", d_], tmp)
            v = cli_sections(r["err_raw"], obs.get("diags", []), files, code)
            if v:
                return False, str(v)[:400]
    finally:
        shutil.rmtree(tmp, ignore_errors=True)
    return True, str([(d["code"], d["primary"]) for d in obs.get("diags", [])])[:400]
