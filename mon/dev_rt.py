import sys, json
sys.path.insert(0, '/verif/mon')
import core, norm
p = core.Probe()
for line in sys.stdin.read().split("\n---\n"):
    text = line.strip()
    if not text: continue
    o = p.run({"op": "roundtrip", "text": text})
    print("SRC:", text[:150].replace("\n", " "))
    if not o["parse1"].get("ok"): print("  parse1 rejected"); continue
    r = o.get("render1", {})
    print("  OUT:", " ".join(r.get("text", str(r)).split())[:300])
    if "parse2" in o:
        if not o["parse2"].get("ok"):
            d = o["parse2"]["diag"]; print("  REPARSE ERR at", repr(r["text"][d["primary"]["start"]:d["primary"]["end"]]), d["primary"]["msg"][:100])
        else:
            n1 = norm.library(o["parse1"]["dump"], o["parse1"]["addrs"]); n2 = norm.library(o["parse2"]["dump"], o["parse2"]["addrs"])
            print("  DIFF:", norm.diff(n1, n2))
