"""Scripted JSON-RPC client for `ironplcc lsp --stdio` that records the whole trace."""
import json
import os
import queue
import subprocess
import threading
import time

import core


OMIT = object()


class Session:
    def __init__(self, tmpdir, init=True, workspace=None):
        env = dict(os.environ)
        env["TMPDIR"] = tmpdir
        env["RUST_BACKTRACE"] = "1"
        self.p = subprocess.Popen([core.PLC_BIN, "lsp", "--stdio"], stdin=subprocess.PIPE, stdout=subprocess.PIPE,
                                  stderr=subprocess.PIPE, env=env)
        self.q = queue.Queue()
        self.trace = []          # ("send"|"recv", message)
        self.next_id = 1
        self.stderr = b""
        self.t = threading.Thread(target=self._reader, daemon=True)
        self.t.start()
        self.te = threading.Thread(target=self._err_reader, daemon=True)
        self.te.start()
        self.alive = True
        self.stalled = False
        if init:
            params = {"processId": None, "rootUri": None, "capabilities": {}}
            if workspace:
                params["workspaceFolders"] = [{"uri": "file://" + workspace, "name": "w"}]
            rid = self.request("initialize", params)
            self.wait_response(rid, 20.0)
            self.notify("initialized", {})

    def _err_reader(self):
        try:
            self.stderr = self.p.stderr.read()
        except Exception:
            pass

    def _reader(self):
        f = self.p.stdout
        try:
            while True:
                length = None
                while True:
                    line = f.readline()
                    if not line:
                        self.q.put(None)
                        return
                    line = line.strip()
                    if not line:
                        break
                    if line.lower().startswith(b"content-length:"):
                        length = int(line.split(b":")[1])
                if length is None:
                    continue
                body = f.read(length)
                if len(body) < length:
                    self.q.put(None)
                    return
                try:
                    msg = json.loads(body)
                except ValueError:
                    msg = {"_unparsable": body.decode("utf-8", "replace")}
                self.q.put(msg)
        except Exception:
            self.q.put(None)

    def _write(self, data, done):
        try:
            self.p.stdin.write(data)
            self.p.stdin.flush()
            done.append(True)
        except (BrokenPipeError, OSError, ValueError):
            done.append(False)

    def send(self, msg, timeout=30.0):
        """Writes one framed message.  A server that has stopped reading (a hang) fills the pipe and would block the
        writer for ever: the write is given a time limit; when it is not through by then the session counts as dead."""
        self.trace.append(("send", msg))
        data = json.dumps(msg).encode()
        if not self.alive:
            return False
        done = []
        t = threading.Thread(target=self._write, args=(b"Content-Length: %d\r\n\r\n" % len(data) + data, done), daemon=True)
        t.start()
        t.join(timeout)
        if t.is_alive() or not done or not done[0]:
            self.alive = False
            self.stalled = t.is_alive()
            return False
        return True

    def request(self, method, params, rid=None):
        if rid is None:
            rid = self.next_id
            self.next_id += 1
        msg = {"jsonrpc": "2.0", "id": rid, "method": method, "params": params}
        if params is OMIT:
            del msg["params"]
        self.send(msg)
        return rid

    def notify(self, method, params):
        self.send({"jsonrpc": "2.0", "method": method, "params": params})

    def respond(self, rid, result=None, error=None):
        m = {"jsonrpc": "2.0", "id": rid}
        if error is not None:
            m["error"] = error
        else:
            m["result"] = result
        self.send(m)

    def recv(self, timeout):
        try:
            m = self.q.get(timeout=timeout)
        except queue.Empty:
            return "timeout"
        if m is None:
            self.alive = False
            return None
        self.trace.append(("recv", m))
        return m

    def wait_response(self, rid, timeout=10.0):
        """Reads until the response with this id arrives; returns (response or None, messages before it)."""
        before = []
        deadline = time.time() + timeout
        while True:
            m = self.recv(max(0.01, deadline - time.time()))
            if m == "timeout":
                return "timeout", before
            if m is None:
                return None, before
            if "id" in m and "method" not in m and m["id"] == rid:
                return m, before
            before.append(m)

    def drain(self, timeout=0.2):
        out = []
        while True:
            m = self.recv(timeout)
            if m == "timeout" or m is None:
                return out
            out.append(m)

    def shutdown(self, timeout=10.0, params=None):
        """shutdown + exit; returns (shutdown response, exit status or None on watchdog)."""
        resp = None
        if self.alive:
            rid = self.request("shutdown", params)
            resp, _ = self.wait_response(rid, timeout)
            self.notify("exit", None)
        try:
            rc = self.p.wait(timeout=timeout)
        except subprocess.TimeoutExpired:
            rc = None
        return resp, rc

    def kill(self):
        try:
            self.p.kill()
            self.p.wait(timeout=5)
        except Exception:
            pass

    def open(self, uri, text, version=1):
        self.notify("textDocument/didOpen", {"textDocument": {"uri": uri, "languageId": "st", "version": version,
                                                               "text": text}})

    def change(self, uri, texts, version):
        self.notify("textDocument/didChange", {"textDocument": {"uri": uri, "version": version},
                                               "contentChanges": [{"text": t} for t in texts]})

    def tokens(self, uri):
        return self.request("textDocument/semanticTokens/full", {"textDocument": {"uri": uri}})
