"""C03 - no error is masked: a defect anywhere in the compilation set makes check fail.

Monitors: (1) monotonicity - a faulty file / declaration placed among valid companions must still
make the set fail, with the planted code still reported (only 'undeclared' codes may be cured, and
only by a companion that declares the missing name - the companions here never do);
(2) same-named declarations must be diagnosed (P0019 / P0020), never collapsed;
(3) conservation (hook events) - the topological re-assembly must output the multiset of
declaration names it was given."""
import collections
import copy
import os
import shutil

import core
import vgen

PROP = "C03"
CURABLE = {"P0012", "P0021", "P0022"}
LEX_FAULT = ("lexical", "PROGRAM lexbad VAR x : INT; END_VAR x := ?; END_PROGRAM\n", {"P0031", "P0002"})
SYN_FAULT = ("syntax", "PROGRAM synbad VAR x : INT END_VAR x := 1; END_PROGRAM\n", {"P0002"})


def project_semantic(probe, files):
    """Loads the files into one FileBackedProject and asks for the verdict three times: straight away, again, and
    once more after one of the files was re-sent unchanged.  The set fails only if every answer is a failure; the
    last failing answer with the most codes is returned (an answer that says OK wins: it is what a user would see)."""
    ops = [{"op": "change", "file": n, "text": t} for n, t in files] + [{"op": "semantic"}, {"op": "semantic"}]
    if files:
        ops += [{"op": "change", "file": files[0][0], "text": files[0][1]}, {"op": "semantic"}]
    obs = probe.run({"op": "project", "ops": ops})
    if obs.get("watchdog"):
        return None, obs
    if "died" in obs or "panic" in obs:
        return "crash", obs
    sems = [r for r in obs["results"] if r.get("op") == "semantic"]
    for r in sems:
        if r.get("ok"):
            return dict(r, repeated_call_accepted=(r is not sems[0])), obs
    codes0 = {d["code"] for d in sems[0].get("diags", [])}
    for r in sems[1:]:
        if not codes0 <= {d["code"] for d in r.get("diags", [])}:
            return r, obs
    return sems[0], obs


def conservation(obs):
    """names into the first transform (toposort) vs names into the second: None if equal or not observable."""
    ev = [e for e in obs.get("events", []) if e[0].startswith("stage:")]
    if len(ev) < 2:
        return None
    a = collections.Counter(ev[0][1].split())
    b = collections.Counter(ev[1][1].split())
    if a != b:
        lost = sorted((a - b).elements())
        gained = sorted((b - a).elements())
        return {"lost": lost, "gained": gained}
    return None


def split_files(decls, rng, k):
    """Distributes the declarations over k files keeping their relative order."""
    k = max(1, min(k, len(decls)))
    buckets = [[] for _ in range(k)]
    for d in decls:
        buckets[rng.randrange(k)].append(d)
    return [b for b in buckets if b]


def judge_fail(res, r, obs, want_codes, case, tag):
    if r is None:
        res.inconclusive.append({"why": "watchdog", "case": case})
        return False
    if r == "crash":
        res.violation("crash", tag + ":crash", obs.get("panic"), case)
        return False
    codes = [d["code"] for d in r.get("diags", [])]
    if r.get("ok"):
        res.violation("masked", tag + ":accepted", {"expected_any_of": sorted(want_codes)}, case)
        return False
    if want_codes and not (set(codes) & set(want_codes)):
        if set(codes) == {"P9999"}:
            res.unsupported += 1
            return False
        res.violation("code-lost", "%s:lost:%s:got:%s" % (tag, "+".join(sorted(want_codes)), "+".join(sorted(set(codes)))),
                      {"codes": codes}, case)
        return False
    return True


# legal declarations that the analyzer answers with P9999 ("not implemented") - each in another rule or stage
UNSUPPORTED = [
    "FUNCTION_BLOCK %(p)sTables\nVAR CONSTANT\n  table : ARRAY[1..2] OF INT := [1, 2];\nEND_VAR\nEND_FUNCTION_BLOCK\n",
    "TYPE\n  %(p)sA : ARRAY[0..3] OF INT;\n  %(p)sAA : %(p)sA;\n  %(p)sA2 : %(p)sAA;\nEND_TYPE\n",
    "PROGRAM %(p)sElems\nVAR a : ARRAY[0..3] OF INT; END_VAR\na[1] := 2;\nEND_PROGRAM\n",
    "TYPE\n  %(p)sT : INT := 5;\nEND_TYPE\n",
    "FUNCTION_BLOCK %(p)sConstStruct\nVAR CONSTANT\n  c : %(p)sS := (m := 1);\nEND_VAR\nEND_FUNCTION_BLOCK\nTYPE\n  %(p)sS : STRUCT m : INT; END_STRUCT;\nEND_TYPE\n",
]


def shard(shard_i, nshards, payload):
    res = core.Result()
    seed = payload["seed"]
    probe = core.Probe()
    try:
        for i in range(shard_i, payload["n_units"], nshards):
            rng = core.rng_for(seed, "c03", i)
            decls = vgen.VGen(rng, prefix="A", avoid=payload["avoid"]).unit()
            base_r, base_obs = project_semantic(probe, [("a.st", vgen.render_unit(decls))])
            res.evaluations += 1
            if not isinstance(base_r, dict) or not base_r.get("ok"):
                res.count("base-not-valid")
                continue
            cons = conservation(base_obs)
            if cons:
                res.violation("not-conserved", "conservation:valid-unit", cons, {"files": [["a.st", vgen.render_unit(decls)]]})
            companions = []
            # file names as real projects have them (case twins, blanks, non-ASCII): 4 for companions, 3 for parts,
            # 3 for the special files; every second unit keeps the plain names
            plain = i % 2 == 0
            names = ["comp%d.st" % c for c in range(4)] + ["part%d.st" % c for c in range(3)] + ["bad.st", "twin.st", "o.st"] \
                if plain else core.file_names(rng, 10)
            comp_names, part_names, bad_name, twin_name, other_name = names[0:4], names[4:7], names[7], names[8], names[9]
            res.count("names:" + ("plain" if plain else "hostile"))
            osc = None if i % 3 == 0 else rng
            for c in range(4):
                cd = vgen.VGen(core.rng_for(seed, "c03comp", i, c), prefix="C%d" % c, avoid=payload["avoid"]).unit(with_config=False)
                companions.append((comp_names[c], vgen.render_unit(cd, oscat=osc)))
            # ---- (1) rule faults among companions
            faults = list(vgen.plant_all(decls))
            rng.shuffle(faults)
            for code, site, mutant, _sp in faults[:payload["faults_per_unit"]]:
                alone_r, alone_obs = project_semantic(probe, [("a.st", vgen.render_unit(mutant))])
                res.evaluations += 1
                if not isinstance(alone_r, dict) or alone_r.get("ok"):
                    continue        # C02's business
                alone_codes = {d["code"] for d in alone_r["diags"]}
                if code not in alone_codes:
                    continue
                want = {code}
                for variant in range(payload["placements"]):
                    k = rng.randint(0, 4)
                    comp = rng.sample(companions, k)
                    parts = split_files(mutant, rng, rng.randint(1, 3))
                    files = [(part_names[j], vgen.render_unit(p, oscat=osc)) for j, p in enumerate(parts)] + comp
                    rng.shuffle(files)
                    r, obs = project_semantic(probe, files)
                    res.evaluations += 1
                    res.count("placement")
                    case = {"files": files, "planted": code, "site": site}
                    if judge_fail(res, r, obs, want, case, "rule:" + code):
                        res.distinct.add(core.key_of(code, site.split(":")[0], k, len(parts)))
                        if len(res.samples) < 1:
                            res.sample({"planted": code, "site": site, "files": [[n, t[:160]] for n, t in files],
                                        "codes_reported": [d["code"] for d in r["diags"]]})
                        res.seen("fault_kinds", code)
                    if isinstance(r, dict):
                        cons = conservation(obs)
                        if cons and not any(d["code"] in ("P0010", "P0019", "P0020") for d in r.get("diags", [])):
                            res.violation("not-conserved", "conservation:placement", cons, case)
                # ... and next to a file that is legal but uses something the analyzer has not implemented (it answers
                # P9999 for it): whatever is said about that file, the set does not become acceptable
                utext = rng.choice(UNSUPPORTED) % {"p": "U%d" % i}
                files = [(part_names[0], vgen.render_unit(mutant, oscat=osc)), (other_name, utext)] + rng.sample(companions, rng.randint(0, 2))
                rng.shuffle(files)
                r, obs = project_semantic(probe, files)
                res.evaluations += 1
                res.count("placement-with-unsupported-companion")
                case = {"files": files, "planted": code, "site": site}
                if isinstance(r, dict) and r.get("ok"):
                    res.violation("masked", "rule:%s:with-unsupported-companion:accepted" % code, {"codes": []}, case)
                elif not isinstance(r, dict):
                    res.violation("crash", "crash:with-unsupported-companion", str(obs)[:300], case)
            # ---- (1b) lexical and syntax fault files among valid files
            import hostile
            for name, text, want in (LEX_FAULT, SYN_FAULT, ("lexical-where", None, {"P0031", "P0002"})):
                for variant in range(payload["placements"]):
                    if name == "lexical-where":
                        text = hostile.lex_fault_text(rng, "lexw%d" % i)
                    k = rng.randint(0, 4)
                    files = [(part_names[0], vgen.render_unit(decls, oscat=osc))] if variant % 2 == 0 else []
                    files += rng.sample(companions, k) + [(bad_name, text)]
                    rng.shuffle(files)
                    r, obs = project_semantic(probe, files)
                    res.evaluations += 1
                    res.count("placement-" + name)
                    case = {"files": files, "planted": name}
                    if judge_fail(res, r, obs, want, case, name):
                        res.distinct.add(core.key_of(name, k, variant % 2))
                        res.seen("fault_kinds", name)
            # ---- (1c) a task reference is per resource: a task of that name in ANOTHER configuration cures nothing
            cfg_i = [k for k, d in enumerate(decls) if d["k"] == "config"]
            progs = [d for d in decls if d["k"] == "program"]
            if cfg_i and progs:
                m = copy.deepcopy(decls)
                m[cfg_i[0]]["programs"][0][1] = "NoSuchTask"
                other = {"k": "config", "name": "OtherCfg", "resource": "otherRes", "globals": [],
                         "tasks": [["NoSuchTask", 1, None]], "programs": [["otherInst", "NoSuchTask", progs[0]["name"]]]}
                for place in ("before", "after", "other-file-first", "other-file-last"):
                    if place == "before":
                        files = [("a.st", vgen.render_unit([other] + m))]
                    elif place == "after":
                        files = [("a.st", vgen.render_unit(m + [other]))]
                    elif place == "other-file-first":
                        files = [("o.st", vgen.render_unit([other])), ("a.st", vgen.render_unit(m))]
                    else:
                        files = [("a.st", vgen.render_unit(m)), ("o.st", vgen.render_unit([other]))]
                    r, obs = project_semantic(probe, files)
                    res.evaluations += 1
                    res.count("cross-config-task")
                    case = {"files": files, "planted": "P0011", "site": "task defined in another configuration: " + place}
                    if judge_fail(res, r, obs, {"P0011"}, case, "rule:P0011:other-config"):
                        res.distinct.add(core.key_of("crosscfg", place))
            # ---- (2) duplicate names
            named = [d for d in decls if d["k"] in ("enum", "struct", "subrange", "array", "fb", "program", "function", "alias",
                                                     "string", "config")]
            rng.shuffle(named)
            for d in named[:payload["dups_per_unit"]]:
                for how in ("same-kind", "other-kind", "same-kind-recased", "other-kind-recased", "identical",
                            "other-kind-function", "other-kind-program", "other-kind-config", "other-kind-string"):
                    orig_name = d["name"]
                    if how.endswith("-recased"):
                        # identifiers are case-insensitive: a twin spelled in another letter case is the same name
                        d = dict(d, name=orig_name.swapcase() if rng.random() < 0.5 else orig_name.upper())
                        how = how[:-len("-recased")]
                        recased = True
                    else:
                        recased = False
                    if how.startswith("other-kind-"):
                        # every pairing of declaration kinds shares the one name space of the library
                        nm = d["name"]
                        twin = {"k": "raw", "text": {
                            "function": "FUNCTION %s : INT VAR_INPUT zz : INT; END_VAR %s := zz; END_FUNCTION" % (nm, nm),
                            "program": "PROGRAM %s VAR zz : INT; END_VAR zz := 1; END_PROGRAM" % nm,
                            "config": "PROGRAM dupprog VAR zz : INT; END_VAR zz := 1; END_PROGRAM CONFIGURATION %s RESOURCE dupres "
                                      "ON PLC PROGRAM dupinst : dupprog; END_RESOURCE END_CONFIGURATION" % nm,
                            "string": "TYPE %s : STRING[7]; END_TYPE" % nm}[how[len("other-kind-"):]]}
                        if how[len("other-kind-"):] == kind_class(d["k"]) or (how.endswith("string") and kind_class(d["k"]) == "type"):
                            continue
                    elif how == "identical":
                        # the very same declaration text a second time (another file may hold a copy)
                        twin = {"k": "raw", "text": vgen.render_decl(d)}
                    elif how == "same-kind":
                        twin = dict(d)
                        if d["k"] in ("fb", "program"):
                            twin = {"k": "raw", "text": ("FUNCTION_BLOCK" if d["k"] == "fb" else "PROGRAM") + " " + d["name"] +
                                    " VAR zz : INT; END_VAR zz := 1; END_" + ("FUNCTION_BLOCK" if d["k"] == "fb" else "PROGRAM")}
                        elif d["k"] == "function":
                            twin = {"k": "raw", "text": "FUNCTION %s : INT VAR_INPUT zz : INT; END_VAR %s := zz; END_FUNCTION" % (d["name"], d["name"])}
                        elif d["k"] == "config":
                            twin = {"k": "raw", "text": "PROGRAM dupprog VAR zz : INT; END_VAR zz := 1; END_PROGRAM CONFIGURATION %s "
                                                        "RESOURCE dupres ON PLC PROGRAM dupinst : dupprog; END_RESOURCE "
                                                        "END_CONFIGURATION" % d["name"]}
                        else:
                            twin = {"k": "raw", "text": "TYPE %s : (dupa, dupb); END_TYPE" % d["name"]}
                    else:
                        if d["k"] in ("fb", "program", "function", "config"):
                            twin = {"k": "raw", "text": "TYPE %s : (dupa, dupb); END_TYPE" % d["name"]}
                        else:
                            twin = {"k": "raw", "text": "FUNCTION_BLOCK %s VAR zz : INT; END_VAR zz := 1; END_FUNCTION_BLOCK" % d["name"]}
                    for place in ("same-file-after", "same-file-before", "other-file"):
                        if place == "same-file-after":
                            files = [("a.st", vgen.render_unit(decls + [twin], oscat=osc))]
                        elif place == "same-file-before":
                            files = [("a.st", vgen.render_unit([twin] + decls, oscat=osc))]
                        else:
                            files = [(part_names[0], vgen.render_unit(decls, oscat=osc)), (twin_name, vgen.render_unit([twin]))]
                            if rng.random() < 0.5:
                                files.reverse()
                        r, obs = project_semantic(probe, files)
                        res.evaluations += 1
                        res.count("duplicate")
                        case = {"files": files, "duplicate": d["name"], "how": how, "place": place, "kind": d["k"]}
                        tag = "dup:%s:%s%s" % (kind_class(d["k"]), how, ":recased" if recased else "")
                        if judge_fail(res, r, obs, {"P0019", "P0020"}, case, tag):
                            res.distinct.add(core.key_of("dup", d["k"], how, place))
                        if isinstance(r, dict) and r.get("ok"):
                            cons = conservation(obs)
                            if cons:
                                res.count("conservation-confirms-collapse")
    finally:
        probe.close()
    return res.to_dict()


def kind_class(k):
    return "type" if k in ("enum", "struct", "subrange", "array", "alias", "string") else k


def cli_shard(shard_i, nshards, payload):
    """The same compositions through the real binary: `check f1 f2 ...` and `check dir`."""
    res = core.Result()
    seed = payload["seed"]
    tmp = core.worker_tmpdir("c03")
    try:
        for i in range(shard_i, payload["n_cli"], nshards):
            rng = core.rng_for(seed, "c03cli", i)
            decls = vgen.VGen(rng, prefix="A", avoid=payload["avoid"]).unit()
            comp = vgen.render_unit(vgen.VGen(rng, prefix="C", avoid=payload["avoid"]).unit(with_config=False))
            kind = i % 3
            if kind == 0 and i % 2:
                import hostile
                bad = ("lexical", hostile.lex_fault_text(rng, "lexc%d" % i), {"P0031", "P0002"})
            elif kind == 0:
                bad = LEX_FAULT
            elif kind == 1:
                bad = SYN_FAULT
            else:
                faults = [f for f in vgen.plant_all(decls) if f[0] in ("P0003", "P0004", "P0005", "P0016", "P0015")
                          and not f[1].endswith("rhs-enum-target")]
                if not faults:
                    continue
                f = rng.choice(faults)
                bad = (f[0], vgen.render_unit(f[2], oscat=rng if i % 3 else None), {f[0]})
            encoding = "utf-8"
            if i % 5 == 4:
                # an export in the old Windows encoding: header comment full of umlauts, valid declarations, blank lines,
                # and the faulty declaration (a short one) as the very last thing in the file
                n_uml = rng.randint(20, 60)
                short = rng.choice([("P0004", "TYPE Rx%d : INT(10..1); END_TYPE\n" % i, {"P0004"}),
                                    ("lexical", "TYPE Ry%d : INT ?; END_TYPE\n" % i, {"P0031", "P0002"}),
                                    ("P0005", "TYPE Ez%d : (ea, ea); END_TYPE\n" % i, {"P0005"})])
                body = vgen.render_unit(vgen.VGen(rng, prefix="W", avoid=payload["avoid"]).unit(with_config=False))
                bad = (short[0], "(* %s *)\n%s%s%s" % ("".join(rng.choice("\u00e4\u00f6\u00fc\u00df\u00c4") for _ in range(n_uml)), body,
                                                      "\n" * rng.randint(0, 2 * n_uml), short[1]), short[2])
                encoding = "cp1252"
                kind = 2
                res.count("cli-cp1252-fault-at-end")
            d = os.path.join(tmp, "set%d" % i)
            os.makedirs(d)
            fn = ["good.st", "bad.st", "unit.st"] if i % 2 == 0 else core.file_names(rng, 3)
            files = [(fn[0], comp), (fn[1], bad[1])]
            if kind != 2:
                files.append((fn[2], vgen.render_unit(decls, oscat=rng if i % 3 else None)))
            linked = rng.randrange(len(files)) if i % 4 == 1 else None
            for j_, (n, t) in enumerate(files):
                if j_ == linked:
                    # the file lives elsewhere and is linked into the directory
                    os.makedirs(os.path.join(tmp, "real%d" % i), exist_ok=True)
                    open(os.path.join(tmp, "real%d" % i, n), "w", encoding=encoding if j_ == 1 else "utf-8").write(t)
                    os.symlink(os.path.join(tmp, "real%d" % i, n), os.path.join(d, n))
                    res.count("cli-symlinked-file")
                else:
                    open(os.path.join(d, n), "w", encoding=encoding if j_ == 1 else "utf-8").write(t)
            paths = [os.path.join(d, n) for n, _ in files]
            orders = [paths, list(reversed(paths)), [d]]
            for args in orders:
                r = core.run_cli(["check"] + args, tmp)
                res.evaluations += 1
                res.count("cli")
                case = {"files": files, "args": [os.path.basename(a) for a in args], "planted": bad[0], "encoding_of_bad_file": encoding}
                if r["watchdog"]:
                    res.inconclusive.append({"why": "cli watchdog", "case": case})
                    continue
                if r["rc"] == 101 or (r["rc"] is not None and r["rc"] < 0):
                    res.violation("crash", "cli:crash", r["err"][-300:], case)
                    continue
                codes = {c[0] for c in core.parse_cli_diags(r["err"])}
                if r["rc"] == 0 or "OK" in r["out"].split():
                    res.violation("masked", "cli:%s:accepted" % ("rule" if kind == 2 else bad[0]),
                                  {"rc": r["rc"], "stdout": r["out"][:100]}, case)
                elif not (codes & bad[2]):
                    res.violation("code-lost", "cli:%s:lost" % ("rule" if kind == 2 else bad[0]),
                                  {"codes": sorted(codes), "want": sorted(bad[2])}, case)
                else:
                    res.distinct.add(core.key_of("cli", bad[0], len(args), args is orders[2]))
            shutil.rmtree(d, ignore_errors=True)
            shutil.rmtree(os.path.join(tmp, "real%d" % i), ignore_errors=True)
        # a faulty declaration stays a reason to fail however many other problems accompany it
        counts = [1, 2, 255, 256, 257, 511, 512, 513, 768, 1024]
        for j, n in enumerate(counts):
            if j % nshards != shard_i:
                continue
            d = os.path.join(tmp, "many%d" % n)
            os.makedirs(d)
            open(os.path.join(d, "good.st"), "w").write("PROGRAM g VAR x : INT; END_VAR x := 1; END_PROGRAM\n")
            open(os.path.join(d, "consts.st"), "w").write(
                "FUNCTION_BLOCK ManyConsts\nVAR CONSTANT\n" + "".join("  c%d : INT;\n" % k for k in range(n)) + "END_VAR\nEND_FUNCTION_BLOCK\n")
            for args in ([d], [os.path.join(d, "consts.st")], [os.path.join(d, "consts.st"), os.path.join(d, "good.st")]):
                r = core.run_cli(["check"] + args, tmp, timeout=120.0)
                res.evaluations += 1
                res.count("cli-many-faults")
                case = {"files": [["consts.st", "%d constants without a value" % n]], "args": [os.path.basename(a) for a in args], "planted": "P0016 x %d" % n}
                if r["watchdog"]:
                    res.inconclusive.append({"why": "cli watchdog", "case": case})
                elif r["rc"] == 101 or (r["rc"] is not None and r["rc"] < 0):
                    res.violation("crash", "cli:crash", r["err"][-300:], case)
                elif r["rc"] == 0 or "OK" in r["out"].split():
                    res.violation("masked", "cli:many-faults:accepted", {"rc": r["rc"], "n": n}, case)
                else:
                    res.distinct.add(core.key_of("many", n, len(args)))
            shutil.rmtree(d, ignore_errors=True)
    finally:
        shutil.rmtree(tmp, ignore_errors=True)
    return res.to_dict()


def run(tier, seed):
    core.build_probe()
    core.build_plc()
    avoid = sorted({a for f in core.load_findings("C02") if f.get("status") == "open" for a in f.get("atoms", [])})
    payload = {"seed": seed, "avoid": avoid,
               "n_units": 100 if tier == "quick" else 3000, "faults_per_unit": 10 if tier == "quick" else 25,
               "placements": 3 if tier == "quick" else 6, "dups_per_unit": 2 if tier == "quick" else 4,
               "n_cli": 60 if tier == "quick" else 1200}
    parts = core.run_sharded(shard, payload)
    parts += core.run_sharded(cli_shard, payload)
    parts.append(witnesses().to_dict())
    res = core.Result.merge(parts)
    extra = {
        "rule": "a single-fault unit (every rule fault of C02, a lexical-error file, a syntax-error file) is split over "
                "1-3 files and placed among 0-4 valid companion files in shuffled order, observed through "
                "FileBackedProject::semantic in process and through `ironplcc check f1 f2..` / `check dir`: the set "
                "must fail and still report the planted code; every named declaration gets a same-named twin (same "
                "kind / other kind; same file before / after, other file): P0019/P0020 required; hook events of the "
                "analyzer stages give the declaration names before and after the topological re-assembly "
                "(conservation); distinct = distinct (fault kind, placement shape) combinations that held",
        "assumptions": ["companions never declare the name a planted 'undeclared' fault is missing, so nothing is cured",
                        "conservation is only judged when the re-assembly returned Ok"],
        "min_evaluations": 500,
    }
    return res, extra


def witnesses():
    res = core.Result()
    fs = [f for f in core.load_findings(PROP) if f.get("witness")]
    if not fs:
        return res
    probe = core.Probe()
    try:
        for f in fs:
            w = f["witness"]
            files = [tuple(x) for x in w["files"]]
            for order in (files, list(reversed(files))):
                r, obs = project_semantic(probe, order)
                res.evaluations += 1
                res.count("witness")
                judge_fail(res, r, obs, set(w["want"]), {"files": order, "finding": f["id"]}, "witness:" + f["id"])
    finally:
        probe.close()
    return res


def replay(case):
    core.build_probe()
    c = case["case"]
    probe = core.Probe()
    r, obs = project_semantic(probe, [tuple(f) for f in c["files"]])
    probe.close()
    if not isinstance(r, dict):
        return False, str(r)
    codes = [d["code"] for d in r.get("diags", [])]
    return (not r.get("ok")), "ok=%s codes=%s conservation=%s" % (r.get("ok"), codes, conservation(obs))
