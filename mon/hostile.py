"""Hostile input generators: random bytes, token soup, token-level mutation of valid
programs, extreme literals, deep nesting."""
import glob
import os
import re

import core

KEYWORDS = """ACTION END_ACTION ARRAY OF AT CASE ELSE END_CASE CONSTANT CONFIGURATION END_CONFIGURATION EN ENO EXIT
FALSE F_EDGE FOR TO BY DO END_FOR FUNCTION END_FUNCTION FUNCTION_BLOCK END_FUNCTION_BLOCK IF THEN ELSIF END_IF
INITIAL_STEP END_STEP PROGRAM WITH END_PROGRAM R_EDGE READ_ONLY READ_WRITE REPEAT UNTIL END_REPEAT RESOURCE ON
END_RESOURCE RETAIN NON_RETAIN RETURN STEP STRUCT END_STRUCT TASK END_TASK TRANSITION FROM END_TRANSITION TRUE
TYPE END_TYPE VAR END_VAR VAR_INPUT VAR_OUTPUT VAR_IN_OUT VAR_TEMP VAR_EXTERNAL VAR_ACCESS VAR_CONFIG VAR_GLOBAL
WHILE END_WHILE BOOL SINT INT DINT LINT USINT UINT UDINT ULINT REAL LREAL TIME DATE TIME_OF_DAY TOD DATE_AND_TIME
DT STRING BYTE WORD DWORD LWORD WSTRING OR XOR AND MOD NOT""".split()

PUNCT = ["(", ")", "{", "}", "[", "]", ",", ";", ":", ".", "..", "#", "&", "=", "<>", "<", ">", "<=", ">=", "/",
         "*", "+", "-", "**", ":=", "=>"]

OTHER = ["x", "y", "fb1", "Abc_1", "_u", "N", "S", "SD", "P1", "INTERVAL", "PRIORITY", "T", "D", "d", "h", "m",
         "s", "ms", "0", "1", "42", "1_000", "16#FF", "8#17", "2#1010", "1.5", "1.0E3", "2.5e-3", "'abc'",
         "'$''", "\"w\"", "%IX1.2", "%QW3", "%M*", "%I*", "(* c *)", "// c\n", "\n", "\r\n", "\t", " ",
         "T#1s", "TOD#1:2:3", "D#2020-01-01", "DT#2020-01-01-1:2:3", "(*@KEY@:DESCRIPTION*)",
         "(*@KEY@:END_DESCRIPTION*)"]

SOUP = KEYWORDS + PUNCT + OTHER

LEX = re.compile(
    r"""(\(\*.*?\*\)|//[^\n]*|'[^']*'|"[^"]*"|%[IQMiqm][A-Za-z*]?[0-9.]*|16\#[0-9A-Fa-f_]+|[28]\#[0-9_]+|"""
    r"""[0-9][0-9_]*(?:\.[0-9_]+)?(?:[eE][+-]?[0-9_]+)?|[A-Za-z_][A-Za-z0-9_]*|:=|=>|<>|<=|>=|\*\*|\.\.|\s+|.)""",
    re.S)


def lex(text):
    return [m.group(0) for m in LEX.finditer(text)]


_FIX = None


def fixtures():
    global _FIX
    if _FIX is None:
        out = []
        for p in sorted(glob.glob(os.path.join(core.COMPILER, "resources", "test", "*.st"))):
            try:
                out.append((os.path.basename(p), open(p, encoding="utf-8").read()))
            except Exception:
                pass
        _FIX = out
    return _FIX


EXTREME_INTS = ["0", "1", "255", "256", "65535", "65536", "4294967295", "4294967296", "9223372036854775807",
                "9223372036854775808", "18446744073709551615", "18446744073709551616",
                "170141183460469231731687303715884105727", "170141183460469231731687303715884105728",
                "340282366920938463463374607431768211455", "340282366920938463463374607431768211456",
                "1" + "0" * 40, "9" * 400, "0" * 50 + "7", "1_0", "1__0", "999999999999999", "86400", "2147483648"]
EXTREME_REALS = ["0.0", "1.0E400", "1.0E-400", "9" * 400 + ".5", "0." + "0" * 20 + "1", "1.5E+308", "1.8E308",
                 "4.9E-324", "1.0e0", "1_0.0_1", "0.9", "0.000000000000001", "0.0000000000000001",
                 "1.5000000000000000", "0.25000000000000000000", "1.000000000000000", "0.0000000000000000",
                 "1.5_000_000_000_000_000", "2.500000000000000000000001", "0.1234567890123456789"]


def extreme_literals(rng):
    """A literal text of some kind with an extreme component."""
    i = rng.choice(EXTREME_INTS)
    r = rng.choice(EXTREME_REALS)
    j = rng.choice(EXTREME_INTS)
    k = rng.choice(["0", "1", "12", "13", "31", "32", "59", "60", "61", "23", "24", "25", "99", "255", "256",
                    "300", "65536"])
    forms = [
        i, "-" + i, "+" + i, "16#" + "F" * rng.choice([1, 16, 32, 33, 64]), "8#" + "7" * rng.choice([1, 42, 43, 80]),
        "2#" + "1" * rng.choice([1, 64, 128, 129, 300]), "INT#" + i, "SINT#-" + i, "UDINT#16#FFFFFFFFF",
        "BYTE#" + i, "LWORD#16#" + "F" * 33, r, "-" + r, "REAL#" + r, "LREAL#-" + r,
        "T#" + i + "d", "T#" + i + "h", "T#" + i + "m", "T#" + i + "s", "T#" + i + "ms", "T#-" + i + "s",
        "T#" + r + "d", "T#" + r + "h", "T#" + r + "m", "T#" + r + "s", "T#" + r + "ms", "TIME#" + i + "s",
        "t#" + i + "s", "T#" + i + "d" + j + "h", "T#" + i + "h_" + j + "m", "T#0.9d", "T#0.9h", "T#0.9m",
        "TOD#" + k + ":" + k + ":" + k, "TOD#10:10:" + i, "TOD#" + i + ":1:1", "TOD#1:" + i + ":1",
        "TOD#10:10:" + r, "TIME_OF_DAY#23:59:59.999999999999",
        "D#" + i + "-01-01", "D#2020-" + k + "-01", "D#2020-01-" + k, "D#0-1-1", "D#9999-12-31", "D#10000-1-1",
        "DATE#" + k + "-" + k + "-" + k, "DT#" + i + "-01-01-1:1:1", "DT#2020-02-30-24:60:60",
        "DATE_AND_TIME#2020-" + k + "-" + k + "-" + k + ":" + k + ":" + k,
        "BOOL#" + rng.choice(["0", "1", "2", "TRUE", "FALSE"]), "'" + "a" * rng.choice([0, 1, 300]) + "'",
        "'$" + rng.choice(["'", "$", "L", "N", "0A", "G", ""]) + "'", "STRING#'x'", "WSTRING#\"y\"",
        "%I" + i, "%IX" + k + "." + k, "%QW" + i + "." + j, "%MD4294967296", "%IX1.2.3.4.5.6.7.8.9", "%I1", "%Q*",
    ]
    return rng.choice(forms)


LITERAL_SITES = [
    "PROGRAM p VAR x : INT := @; END_VAR END_PROGRAM",
    "PROGRAM p VAR x : INT; END_VAR x := @; END_PROGRAM",
    "PROGRAM p VAR x : INT; END_VAR x := f(@) + @; END_PROGRAM",
    "TYPE R : INT(0..@I); END_TYPE",
    "TYPE R : INT(-@I..@I) := @I; END_TYPE",
    "TYPE R : UDINT(@I..-@I); END_TYPE",
    "TYPE A : ARRAY[@I..@I] OF INT := [@I(@), @]; END_TYPE",
    "TYPE A : ARRAY[-@I..@I, 0..@I] OF INT; END_TYPE",
    "TYPE S : STRING[@I] := 'a'; END_TYPE",
    "TYPE S : WSTRING(@I); END_TYPE",
    "TYPE S : STRUCT a : INT := @; b : INT(0..@I); c : ARRAY[0..@I] OF INT; END_STRUCT; END_TYPE",
    "PROGRAM p VAR a : ARRAY[0..@I] OF INT; s : STRING[@I]; r : INT(@I..@I); END_VAR a[@] := @; END_PROGRAM",
    "FUNCTION_BLOCK f VAR_IN_OUT r : INT(-@I..@I); END_VAR END_FUNCTION_BLOCK",
    "PROGRAM p VAR x AT @ : BOOL; END_VAR END_PROGRAM",
    "PROGRAM p VAR x AT @A : BOOL := @; END_VAR @A := 1; x := @A; END_PROGRAM",
    "PROGRAM p VAR x : INT; END_VAR CASE x OF @I: x := 1; @I..@I: x := 2; -@I: x := 3; END_CASE; END_PROGRAM",
    "PROGRAM p VAR x : INT; END_VAR FOR x := @ TO @ BY @ DO x := x; END_FOR; END_PROGRAM",
    "CONFIGURATION c RESOURCE r ON PLC TASK t(INTERVAL := @, PRIORITY := @I); PROGRAM i WITH t : p; END_RESOURCE END_CONFIGURATION",
    "CONFIGURATION c RESOURCE r ON PLC TASK t(INTERVAL := @D, PRIORITY := @I); PROGRAM i WITH t : p; END_RESOURCE END_CONFIGURATION",
    "CONFIGURATION c RESOURCE r ON PLC TASK t(PRIORITY := @I); PROGRAM i WITH t : p (a := @, b => @A); END_RESOURCE END_CONFIGURATION",
    "CONFIGURATION c VAR_GLOBAL g AT @A : INT; END_VAR RESOURCE r ON PLC PROGRAM i : p; END_RESOURCE VAR_CONFIG r.i.v AT @A : INT := @; END_VAR END_CONFIGURATION",
    "FUNCTION_BLOCK f VAR x : BOOL; END_VAR INITIAL_STEP s: END_STEP STEP t: a(SD, @D); END_STEP TRANSITION (PRIORITY := @I) FROM s TO t := x; END_TRANSITION ACTION a: x := TRUE; END_ACTION END_FUNCTION_BLOCK",
    "PROGRAM p VAR t : TIME := @D; d : DATE := @; o : TOD := @; END_VAR END_PROGRAM",
]

HOLE = re.compile(r"@[IDA]?")


def literal_case(rng):
    site = rng.choice(LITERAL_SITES)

    def fill(m):
        h = m.group(0)
        if h == "@I":
            return rng.choice(EXTREME_INTS)
        if h == "@D":
            i = rng.choice(EXTREME_INTS)
            r = rng.choice(EXTREME_REALS)
            u = rng.choice(["d", "h", "m", "s", "ms"])
            return rng.choice(["T#" + i + u, "T#" + r + u, "T#-" + i + u, "TIME#" + r + u,
                               "T#" + i + "d" + rng.choice(EXTREME_INTS) + "h", "T#" + i + "s" + r + "ms"])
        if h == "@A":
            k = rng.choice(EXTREME_INTS[:12])
            return rng.choice(["%I", "%Q", "%M"]) + rng.choice(["", "X", "B", "W", "D", "L", "*"]) + \
                rng.choice([k, k + "." + k, "1.2.3", "", "0"])
        return extreme_literals(rng)
    return HOLE.sub(fill, site)


def nesting_case(rng):
    d = rng.randint(1, 12)
    kind = rng.randrange(9)
    brk = rng.choice(["", "", "drop", "extra", "op"])
    if kind == 0:
        body = "x := " + "(" * d + "1" + ")" * d + ";"
    elif kind == 1:
        body = "x := " + "f(" * d + "1" + ")" * d + ";"
    elif kind == 2:
        body = "x := " + "a[" * d + "1" + "]" * d + ";"
    elif kind == 3:
        body = "IF x THEN " * d + "x := 1;" + " END_IF;" * d
    elif kind == 4:
        body = "CASE x OF 1: " * d + "x := 1;" + " END_CASE;" * d
    elif kind == 5:
        body = "FOR i := 1 TO 2 DO " * d + "x := 1;" + " END_FOR;" * d
    elif kind == 6:
        body = "x := " + "(1 + " * d + "1" + ")" * d + ";"
    elif kind == 7:
        body = "x := " + "NOT (" * d + "y" + ")" * d + " AND " + "(" * d + "z" + ")" * d + ";"
    else:
        body = "WHILE x DO REPEAT " * d + "x := 1;" + " UNTIL x END_REPEAT; END_WHILE;" * d
    if brk == "drop" and len(body) > 4:
        k = rng.randrange(len(body))
        body = body[:k] + body[k + 1:]
    elif brk == "extra":
        k = rng.randrange(len(body))
        body = body[:k] + rng.choice(["(", ")", "[", "]", "+", ";"]) + body[k:]
    elif brk == "op":
        body = body.replace("1", "1 +", 1)
    if rng.random() < 0.2:
        # nesting in initialisers / type graphs
        d2 = rng.randint(1, 12)
        if rng.random() < 0.5:
            init = "(a := " * d2 + "1" + ")" * d2
            return "TYPE S : T := " + init + "; END_TYPE PROGRAM p VAR v : S := " + init + "; END_VAR END_PROGRAM"
        chain = "".join("T%d : T%d; " % (i, i + 1) for i in range(d2))
        tail = rng.choice(["T%d : INT; " % d2, "T%d : T0; " % d2, "T%d : (a, b); " % d2, ""])
        return "TYPE " + chain + tail + "END_TYPE PROGRAM p VAR v : T0 := a; END_VAR END_PROGRAM"
    # the same nest in every kind of POU (their bodies are laid out differently when rendered), also inside an action
    w = rng.randrange(5)
    if w == 0:
        return "FUNCTION_BLOCK fb VAR x : INT; i : INT; y : BOOL; z : BOOL; END_VAR " + body + " END_FUNCTION_BLOCK"
    if w == 1:
        return "FUNCTION fn : INT VAR x : INT; i : INT; y : BOOL; z : BOOL; END_VAR " + body + " fn := 1; END_FUNCTION"
    if w == 2 and kind in (3, 4, 5, 8):
        # nested in the ELSE branches instead of the first ones
        if kind == 3:
            body = "IF x THEN x := 0; ELSE " * d + "x := 1;" + " END_IF;" * d
        elif kind == 4:
            body = "CASE x OF 1: x := 0; ELSE " * d + "x := 1;" + " END_CASE;" * d
        return "FUNCTION_BLOCK fb VAR x : INT; i : INT; END_VAR " + body + " END_FUNCTION_BLOCK"
    return "PROGRAM p VAR x : INT; END_VAR " + body + " END_PROGRAM"


def random_bytes_text(rng):
    n = rng.choice([0, 1, 2, 7, 64, 300, 2000])
    b = bytes(rng.randrange(256) for _ in range(n))
    return b.decode("utf-8", "replace")


def soup_case(rng):
    n = rng.choice([1, 3, 10, 40, 200, 1000])
    sep = rng.choice([" ", " ", "", "\n"])
    return sep.join(rng.choice(SOUP) for _ in range(n))


def mutate(tokens, rng, k):
    toks = list(tokens)
    for _ in range(k):
        if not toks:
            break
        op = rng.randrange(4)
        i = rng.randrange(len(toks))
        if op == 0:
            del toks[i]
        elif op == 1:
            toks.insert(i, toks[i])
        elif op == 2:
            j = rng.randrange(len(toks))
            toks[i], toks[j] = toks[j], toks[i]
        else:
            toks[i] = rng.choice(SOUP)
    return toks


def mutated_fixture(rng):
    name, text = rng.choice(fixtures())
    toks = lex(text)
    # keep it below 64 KiB and cheap: take a window of declarations for the large ones
    if len(toks) > 1500:
        s = rng.randrange(len(toks) - 1500)
        toks = toks[s:s + 1500]
    return name, "".join(mutate(toks, rng, rng.randint(1, 5)))


MB = ["é", "ü", "€", "日", "🙂", "ß", "Ж", "\u00a0", "\u2028"]


def unicode_blob(rng, nbytes):
    """Text of roughly nbytes bytes in which multi-byte characters sit at every alignment."""
    out = []
    size = 0
    while size < nbytes:
        if rng.random() < 0.35:
            c = rng.choice(MB)
        else:
            c = rng.choice("abcdefghij XYZ0123456789_-+")
        out.append(c)
        size += len(c.encode("utf-8"))
    return "".join(out)


def unicode_case(rng):
    """Long tokens with multi-byte characters where messages, labels and positions are computed: inside a token
    the parser rejects, in an unterminated string or comment, in an OSCAT header, after an error on the same line."""
    n = rng.choice([20, 40, 47, 48, 49, 64, 100, 127, 128, 129, 130, 200, 300, 1000])
    blob = unicode_blob(rng, n).replace("'", "").replace('"', "")
    pad = "a" * rng.randint(0, 5)
    k = rng.randrange(12)
    head = "PROGRAM p VAR x : INT; s : STRING; END_VAR "
    if k == 0:
        return head + "s := 'ok' '%s%s'; END_PROGRAM" % (pad, blob)          # syntax error at a long string token
    if k == 1:
        return head + "s := '%s%s; x := 1; END_PROGRAM" % (pad, blob)          # unterminated string
    if k == 2:
        return head + "x := 1; (* %s%s END_PROGRAM" % (pad, blob)             # unterminated comment
    if k == 3:
        return head + "x := \"%s%s\" \"again\"; END_PROGRAM" % (pad, blob)     # double-quoted, syntax error
    if k == 4:
        return head + "s := '%s%s'; x := undeclared; END_PROGRAM" % (pad, blob)  # valid string, later semantic error
    if k == 5:
        return head + "(* %s *) x := ? ; END_PROGRAM" % blob                   # lexical error after non-ASCII
    if k == 6:
        return "(*@KEY@:DESCRIPTION*)\r\n%s\r\n%s\r\n(*@KEY@:END_DESCRIPTION*)\r\n" % (blob, pad) + head + "x := y; END_PROGRAM"
    if k == 7:
        return "(*@KEY@:END_DESCRIPTION*) (*@KEY@:DESCRIPTION*) %s (*@KEY@:END_DESCRIPTION*) (*@KEY@:DESCRIPTION*) x (*@KEY@:END_DESCRIPTION*)" % blob + head + "END_PROGRAM"
    if k == 8:
        return head + "x := %s%s; END_PROGRAM" % (pad, blob)                    # non-ASCII where an expression is expected
    if k == 9:
        return head + "s := '%s'%s; END_PROGRAM" % (blob, blob[:20])
    if k == 10:
        return "TYPE %s : INT; END_TYPE (* %s *) %s" % (pad or "T", blob, blob)
    return head + "x := 1;\n(* %s\n %s *) x := '%s' + ;\nEND_PROGRAM" % (blob[:30], blob[:40], blob)


TAILS = ["// Autor: René", "(* geprüft: Jörg Müß *)", "// 日本", "(* € *)", "é", "// xé", "(* unterminated é", "'é",
         "// ok", "(* ascii *)", "// €", "éé", "// 🙂", "(* 🙂 *)", "//é", "// é\r",
         # what old tools leave at the end of a file (DOS end-of-file mark), and characters whose UTF-16 form ends in
         # the same byte
         "\x1a", "// fin \u201a", "(* \u011a", "// x\x1a", "\u201a"]


def tail(rng, wide=True):
    """What real files end with: a trailing comment or stray character whose LAST character is not ASCII, with no line
    break after it (the file's last bytes are then a multi-byte sequence, or an incomplete one in another encoding)."""
    pool = TAILS if wide else [t for t in TAILS if all(ord(c) < 256 or c == "€" for c in t)]
    return rng.choice(pool)


def truncate_with_tail(text, rng, wide=True):
    """The document while it is being typed: cut off at a token boundary somewhere in its second half (or not at all),
    then a tail() without a final line break."""
    toks = lex(text)
    if len(toks) > 4 and rng.random() < 0.7:
        k = rng.randrange(len(toks) // 2, len(toks))
        text = "".join(toks[:k])
    sep = rng.choice(["\n", " ", "\n\n", ""])
    return text.rstrip("\n") + sep + tail(rng, wide)


def lex_fault_text(rng, tag="lexbad"):
    """A file with invalid text (characters that are no token) in one of the places it can be: in the middle, as the
    very first or the very last thing, a whole run of it, or nothing else at all."""
    body = "PROGRAM %s VAR x : INT; END_VAR x := 1; END_PROGRAM\n" % tag
    junk = rng.choice(["?", "$$$", "\x1a", "~~", "`", "@!", "\\"])
    k = rng.randrange(6)
    if k == 0:
        return body.replace("x := 1;", "x := %s;" % junk)
    if k == 1:
        return junk + body                     # invalid text at byte offset 0
    if k == 2:
        return junk + "\n" + body
    if k == 3:
        return body + junk                     # ... at the end, no line break after it
    if k == 4:
        return junk * 3 + " " + junk + "\n"    # nothing but invalid text
    return body.replace("VAR", junk + " VAR", 1)


def many_decls_case(rng):
    """Size instead of shape: hundreds of small declarations (type names, function blocks, variables, statements) within
    64 KiB and without nesting - counters, index types and tables have their limits at 255 / 256 / 65535."""
    n = rng.choice([100, 200, 254, 255, 256, 257, 300, 512, 600])
    kind = rng.randrange(5)
    if kind == 0:
        return "TYPE\n" + "".join("  En%d : (a%d, b%d);\n" % (k, k, k) for k in range(n)) + "END_TYPE\n"
    if kind == 1:
        return "TYPE\n  Base0 : (x0, y0);\n" + "".join("  Al%d : %s;\n" % (k, "Base0" if k == 0 else "Al%d" % (k - 1)) for k in range(n)) + "END_TYPE\n"
    if kind == 2:
        return "TYPE\n" + "".join("  St%d : STRUCT m : INT; END_STRUCT;\n" % k for k in range(n)) + "END_TYPE\n" + \
            "PROGRAM p\nVAR\n" + "".join("  v%d : St%d;\n" % (k, k) for k in range(n)) + "END_VAR\nEND_PROGRAM\n"
    if kind == 3:
        return "".join("FUNCTION_BLOCK F%d\nVAR x : INT; END_VAR\nx := %d;\nEND_FUNCTION_BLOCK\n" % (k, k) for k in range(n)) + \
            "PROGRAM p\nVAR\n" + "".join("  i%d : F%d;\n" % (k, k) for k in range(n)) + "END_VAR\n" + \
            "".join("i%d();\n" % k for k in range(n)) + "END_PROGRAM\n"
    return "PROGRAM p\nVAR\n" + "".join("  v%d : INT := %d;\n" % (k, k) for k in range(n)) + "END_VAR\n" + \
        "".join("v%d := v%d + %d;\n" % (k, (k + 1) % n, k) for k in range(n)) + "END_PROGRAM\n"


FLAT_KINDS = ["chain", "chain-two-levels", "comparisons", "statements", "elsif", "case-groups", "case-labels", "enum-values",
              "arguments", "array-elements", "variables", "string", "comment", "invalid-characters", "struct-elements", "subscripts"]


def flat_case(rng, kind=None, n=None):
    """Length instead of depth: one flat construct that is long - within 64 KiB and with no bracket or statement nesting
    beyond a few levels - a sum of thousands of terms, thousands of statements, ELSIF branches, case labels, enumeration
    values, arguments, array elements, variables, one long string or comment, thousands of invalid characters.  The
    grammar turns a flat chain into a deep tree; whatever walks that tree recursively has to cope."""
    n = n or rng.choice([200, 300, 500, 700, 1000, 1500, 2000, 3000, 5000, 8000, 12000])
    kind = rng.randrange(16) if kind is None else kind
    head = "PROGRAM p\nVAR x : INT; b : BOOL; a : ARRAY[0..9] OF INT; END_VAR\n"
    tail = "\nEND_PROGRAM\n"
    if kind == 0:
        op = rng.choice([" + ", "+", " - ", " * ", " OR ", " AND ", " XOR ", " & ", " / ", " MOD "])
        term = rng.choice(["1", "x", "x", "2"]) if "OR" not in op and "AND" not in op and "&" not in op else "b"
        text = head + ("b" if term == "b" else "x") + " := " + op.join([term] * n) + ";" + tail
    elif kind == 1:
        # two precedence levels alternating: a + b * c + d * e ...
        text = head + "x := " + " + ".join("x * %d" % (k % 7) for k in range(n // 2)) + ";" + tail
    elif kind == 2:
        text = head + "b := " + " OR ".join("x %s %d" % (rng.choice(["<", "=", ">", "<>", "<=", ">="]), k) for k in range(n // 3)) + ";" + tail
    elif kind == 3:
        text = head + "".join("x := x + %d;\n" % k for k in range(n // 2)) + tail
    elif kind == 4:
        text = head + "IF x = 0 THEN x := 1;\n" + "".join("ELSIF x = %d THEN x := %d;\n" % (k, k + 1) for k in range(1, n // 4)) + "ELSE x := 0;\nEND_IF;" + tail
    elif kind == 5:
        text = head + "CASE x OF\n" + "".join("%d: x := %d;\n" % (k, k + 1) for k in range(n // 3)) + "END_CASE;" + tail
    elif kind == 6:
        text = head + "CASE x OF\n" + ", ".join(str(k) for k in range(n)) + ": x := 1;\nEND_CASE;" + tail
    elif kind == 7:
        text = "TYPE Big : (" + ", ".join("v%d" % k for k in range(n)) + "); END_TYPE\n"
    elif kind == 8:
        text = head + "x := f(" + ", ".join(str(k % 10) for k in range(n)) + ");" + tail
    elif kind == 9:
        text = "PROGRAM p\nVAR big : ARRAY[0..%d] OF INT := [%s]; END_VAR\nEND_PROGRAM\n" % (n, ", ".join(str(k % 10) for k in range(n)))
    elif kind == 10:
        text = "PROGRAM p\nVAR\n" + "".join(" v%d : INT;\n" % k for k in range(n // 2)) + "END_VAR\nEND_PROGRAM\n"
    elif kind == 11:
        q = rng.choice(["'", '"'])
        text = "PROGRAM p\nVAR s : %s := %s%s%s; END_VAR\nEND_PROGRAM\n" % ("STRING" if q == "'" else "WSTRING", q,
                                                                            rng.choice(["a", "é", "ab ", "$$"]) * (n * 2), q)
    elif kind == 12:
        text = head + "(*" + rng.choice([" c", "*", "(", " é", "\n"]) * (n * 2) + " *) x := 1;" + tail
    elif kind == 13:
        # as many lexical errors as fit
        text = head + rng.choice(["? ", "?", "@ ?\n", "\\ "]) * n + tail
    elif kind == 14:
        text = "TYPE S : STRUCT\n" + "".join(" m%d : INT;\n" % k for k in range(n // 2)) + "END_STRUCT; END_TYPE\n" + \
            "PROGRAM p VAR s : S := (" + ", ".join("m%d := %d" % (k, k) for k in range(min(n // 2, 1500))) + "); END_VAR END_PROGRAM\n"
    else:
        # selector chains and unary chains are flat too
        text = head + "x := " + rng.choice(["a[0]" + "[0]" * 0 + ".m" * 0, "x"]) + "".join(" + a[%d]" % (k % 10) for k in range(n // 2)) + ";" + tail
    raw = text.encode("utf-8")
    if len(raw) > 65000:
        text = raw[:65000].decode("utf-8", "ignore")
    return text
