"""C15 - semantic tokens decode to exactly the highlighted lexemes of the document.

Oracle: an independent lexical classifier (written from IEC 61131-3 Annex B.1, not from token.rs)
gives every lexeme of the current text with (line, character, length, class); the server's
`data` array is decoded with the LSP relative encoding and each decoded range must be exactly one
lexeme whose class allows the legend entry."""
import re
import shutil

import core
import gen
import lsp
import spell
from c01 import known_bad_atoms

PROP = "C15"
LEGEND = ["variable", "keyword", "modifier", "comment", "string", "operator"]
WORD_OPS = {"OR", "XOR", "AND", "MOD", "NOT"}
ALLOWED = {
    "identifier": {"variable"},
    "comment": {"comment"},
    "keyword": {"keyword", "modifier", "string"},
    "wordop": {"operator", "keyword"},
    "operator": {"operator", "keyword"},
    "address": {"operator", "variable"},
}
LEX = re.compile(
    r"""(?P<comment>\(\*.*?\*\)|//[^\r\n]*(?:\r\n|\n)?)|(?P<string>'(?:\$.|[^'$])*'|"(?:\$.|[^"$])*")|(?P<address>%[IQMiqm](?:\*|[XBWDLxbwdl]?[0-9]+(?:\.[0-9]+)*))"""
    r"""|(?P<number>(?:16\#[0-9A-Fa-f_]+|8\#[0-7_]+|2\#[01_]+|[0-9][0-9_]*(?:\.[0-9_]+)?(?:[eE][+-]?[0-9_]+)?))"""
    r"""|(?P<word>[A-Za-z_][A-Za-z0-9_]*)|(?P<op>:=|=>|<>|<=|>=|\*\*|\.\.|[-+*/=<>&])|(?P<punct>[()\[\]{},;:.\#])"""
    r"""|(?P<ws>[ \t\r\n\f]+)|(?P<bad>.)""", re.S)


def u16(s):
    return len(s.encode("utf-16-le")) // 2


OSCAT_OPEN = "(*@KEY@:DESCRIPTION*)"
OSCAT_CLOSE = "(*@KEY@:END_DESCRIPTION*)"


def blank_oscat(text):
    """The free text between the first OSCAT description keys is not source text (ironplc documents this extension):
    it is read as blanks, line breaks kept."""
    a = text.find(OSCAT_OPEN)
    b = text.find(OSCAT_CLOSE)
    if 0 <= a < b:
        body = text[a + len(OSCAT_OPEN):b]
        return text[:a + len(OSCAT_OPEN)] + "".join(c if c == "\n" else " " for c in body) + text[b:]
    return text


def classify(text):
    """[(line, char(chars), char(utf16), length(chars), length(utf16), class, lexeme)], has_invalid"""
    written = text
    text = blank_oscat(text)        # same length in characters: positions are those of the text as written
    out = []
    invalid = False
    line = 0
    line_start = 0
    for m in LEX.finditer(text):
        kind = m.lastgroup
        lexeme = m.group(0)
        start = m.start()
        prefix = written[line_start:start]
        if kind == "bad":
            invalid = True
        elif kind not in ("ws",):
            cls = None
            if kind == "comment":
                cls = "comment"
            elif kind == "address":
                cls = "address"
            elif kind == "op":
                cls = "operator"
            elif kind == "word":
                up = lexeme.upper()
                if up in WORD_OPS:
                    cls = "wordop"
                elif up in gen.KEYWORDS:
                    cls = "keyword"
                else:
                    cls = "identifier"
            if cls:
                out.append((line, len(prefix), u16(prefix), len(lexeme), u16(lexeme), cls, lexeme))
        nl = lexeme.count("\n")
        if nl:
            line += nl
            line_start = start + lexeme.rfind("\n") + 1
    return out, invalid


def decode(data):
    toks = []
    line = 0
    start = 0
    for i in range(0, len(data) - 4, 5):
        dl, ds, ln, ty, mods = data[i:i + 5]
        if dl:
            line += dl
            start = ds
        else:
            start += ds
        toks.append((line, start, ln, ty, mods))
    return toks


def judge(text, result):
    """None or (kind, sig, detail)."""
    lexemes, invalid = classify(text)
    if invalid:
        if result is not None:
            return ("partial-on-invalid", "invalid-text-not-null", {"result_len": len(result.get("data", []))})
        return None
    if result is None:
        return ("null-on-valid", "null", "null result for a document without invalid text")
    data = result.get("data")
    if data is None or len(data) % 5:
        return ("malformed", "malformed", {"len": None if data is None else len(data)})
    toks = decode(data)
    by_pos = {}
    for lx in lexemes:
        # character and length in UTF-16 code units: the position encoding of LSP when nothing else is negotiated
        by_pos[(lx[0], lx[2], lx[4])] = lx
        if lx[5] == "comment" and lx[6].startswith("//"):
            # a line comment runs to the end of its line; whether the range takes the line break with it is not demanded
            by_pos[(lx[0], lx[2], u16(lx[6].rstrip("\r\n")))] = lx
        if lx[5] == "comment" and "\n" in lx[6]:
            # one token per line of the comment is an accepted alternative
            pass
    prev = None
    covered = set()
    for t in toks:
        line, start, ln, ty, mods = t
        if prev is not None:
            if (line, start) <= (prev[0], prev[1]) or (line == prev[0] and start < prev[1] + prev[2]):
                return ("not-increasing", "order", {"previous": prev, "token": t})
        prev = t
        lx = by_pos.get((line, start, ln))
        if lx is None:
            near = [x for x in lexemes if x[0] == line][:6]
            return ("not-a-lexeme", "range", {"token": t, "lexemes_on_line": [(x[1], x[3], x[6][:20]) for x in near]})
        if ty >= len(LEGEND):
            return ("legend", "legend-index", {"token": t})
        if LEGEND[ty] not in ALLOWED[lx[5]]:
            return ("wrong-class", "class:%s:%s" % (lx[5], LEGEND[ty]), {"token": t, "lexeme": lx[6][:30]})
        covered.add((lx[0], lx[1]))
    for lx in lexemes:
        if lx[5] in ("identifier", "comment") and (lx[0], lx[1]) not in covered:
            return ("missing", "missing:" + lx[5], {"lexeme": lx[6][:30], "line": lx[0], "char": lx[1]})
    return None


TRIVIA = [" ", "  ", "\t", "\n", "\r\n", " \n ", " (* c *) ", "(* c *)", " (* multi\nline *) ", "(* ( *)", "(*x*)(*y*)",
          " (* café ü *) ", "\n\t(* - *)\n", " (**) ", "(***)", " (* multi\r\nline *) ", "  (* a\r\n\r\n b é *) x"[:-2],
          "(** doc **)", "(* x **)", "\f", " \f ", "\f\n", "(* a\fb *)",
          # line comments (to the end of the line)
          " // c\n", " // é ü\r\n", "\n// x (* y\n", " //\n", "\t// a // b\n  ", " // 日本 🙂\n"]


def make_doc(rng, bad01):
    g = gen.Gen(rng, avoid=bad01, depth=rng.randint(1, 3))
    toks, _ = g.library(rng.randint(1, 4))
    old = spell.TRIVIA
    spell.TRIVIA = TRIVIA
    try:
        text = spell.respell(toks, rng, kwcase=rng.random() < 0.5, idcase=rng.random() < 0.5, trivia=True,
                             endif=rng.random() < 0.5)
    finally:
        spell.TRIVIA = old
    return text, g.atoms


def shard(shard_i, nshards, payload):
    res = core.Result()
    tmp = core.worker_tmpdir("c15")
    bad01 = set(payload["bad_c01"])
    s = lsp.Session(tmp)
    # the document's URI as editors send it: percent-encoded where the path has blanks, non-ASCII letters, '#', braces
    uri = ["file:///w/doc.st", "file:///w/my%20project/main.st", "file:///w/pr%C3%BCfstand/d%C3%B6k.st",
           "file:///w/a%23b%7Bc%7D.st", None][shard_i % 5]
    disk_path = None
    if uri is None:
        # a document that also exists as a file, reached through a symbolic link; the file is saved, changed and removed
        # behind the server's back: what the editor sent is the document
        import os
        os.makedirs(os.path.join(tmp, "realdir"), exist_ok=True)
        if not os.path.lexists(os.path.join(tmp, "linkdir")):
            os.symlink(os.path.join(tmp, "realdir"), os.path.join(tmp, "linkdir"))
        uri = "file://" + os.path.join(tmp, "linkdir") + "//doc.st"
        disk_path = os.path.join(tmp, "realdir", "doc.st")
    res.seen("uris", uri if disk_path is None else "file://<tmp>/linkdir//doc.st (symlink, file on disk comes and goes)")
    version = 0
    try:
        for i in range(shard_i, payload["n"], nshards):
            rng = core.rng_for(payload["seed"], "c15", i)
            text, atoms = make_doc(rng, bad01)
            kind = "valid"
            if i % 6 == 1:
                # an OSCAT description block (free text between two key comments) at the top or between declarations, its
                # closing key at the start of a line, indented, or on the line of the text
                body = rng.choice(["any text", "version 1.0\n  second line", "it's 100% free ?", "", "a\nb\nc", "x := (1 + ;",
                                   # characters of two, three and four bytes (one and two UTF-16 units) in the free text, also
                                   # on the line of the closing key and of the code after it
                                   "é", "größe: 5 µm", "日本語の説明", "ok 🙂 🙂", "é\n日本 🙂"])
                a_, b_ = rng.choice([("\n", "\n"), ("\n    ", "\n    "), (" ", " "), ("\n", "\n  "), ("\r\n", "\r\n"), ("", "")])
                block = "%s%s%s%s%s" % (OSCAT_OPEN, a_, body, b_, OSCAT_CLOSE)
                nls = [m_.start() for m_ in re.finditer("\n", text)]
                if nls and rng.random() < 0.5 and "(*" not in text:
                    k = rng.choice(nls)
                    text = text[:k + 1] + block + "\n" + text[k + 1:]
                else:
                    text = block + rng.choice(["\n", " ", "\r\n"]) + text
                kind = "oscat"
            elif i % 5 == 2:
                # the document while it is being typed: cut off after a token (END_IF when there is one), then only
                # blanks and comments up to the end
                ends = [m_.end() for m_ in re.finditer(r"(?i)\bEND_IF\b", text)]
                if ends and rng.random() < 0.7:
                    k = rng.choice(ends)
                else:
                    cuts = [m_.end() for m_ in LEX.finditer(text) if m_.lastgroup in ("word", "punct", "op", "number")]
                    k = rng.choice(cuts) if cuts else len(text)
                # not inside a comment or string: cut only where the prefix lexes cleanly
                if not classify(text[:k])[1] and text[:k].count("(*") == text[:k].count("*)"):
                    text = text[:k] + rng.choice([" (* x *)", "\n(* a *)\n(* b *)", " (* c *) ", "\n\n(* end *)\n", "(* é *)", ""])
                    kind = "truncated"
            if i % 9 == 5 and "'" not in text and kind == "valid":
                # a character string that runs over a line end, and tokens after it further left on their line
                text += "\nPROGRAM mls\nVAR s : STRING; x : INT; END_VAR\n      s := 'a\nb';x := 1;\nx := 2;\nEND_PROGRAM\n"
                kind = "multi-line-string"
            if i % 7 == 3:
                # planted invalid character: the answer must be null
                # (anywhere; inside a string literal only where it does not follow a '$', since which characters may
                # follow '$' is not what the property is about)
                k = rng.randrange(len(text) + 1)
                while k > 0 and text[k - 1] == "$":
                    k -= 1
                bad_ch = rng.choice(["?", "@", "!", "~", "\\", "`"])
                if rng.random() < 0.25:
                    # ... or an invisible one as the very first character of the document
                    k, bad_ch = 0, rng.choice(["\ufeff", "\u200b", "\u00a0", "\ufeff\ufeff"])
                text = text[:k] + bad_ch + text[k:]
                kind = "invalid-char"
            # an edit history before the request: stale texts must not show through
            if disk_path is not None:
                import os
                what = rng.randrange(3)
                if what == 0 and os.path.exists(disk_path):
                    os.unlink(disk_path)
                elif what == 1:
                    open(disk_path, "w").write(make_doc(rng, bad01)[0])
            n_edits = rng.randint(0, 3)
            reopened = (i // nshards) % 3 == 1
            if reopened:
                # the editor closed the document and opens it again: its version numbers start over (lower than the
                # ones the server saw before)
                s.notify("textDocument/didClose", {"textDocument": {"uri": uri}})
                version = 0
                res.count("history:reopened-versions-restart")
            for e in range(n_edits):
                version += 1
                other, _ = make_doc(rng, bad01)
                if e == 0 and (reopened or rng.random() < 0.5):
                    s.open(uri, other, version)
                else:
                    s.change(uri, [other], version)
            version += 1
            if n_edits == 0 or rng.random() < 0.5:
                s.change(uri, [text], version) if n_edits else s.open(uri, text, version)
            else:
                s.change(uri, ["PROGRAM stale END_PROGRAM", text], version)
            rid = s.tokens(uri)
            resp, _ = s.wait_response(rid, 20.0)
            res.evaluations += 1
            res.count("doc:" + kind)
            case = {"text": text, "edits_before": n_edits}
            if resp is None or resp == "timeout":
                if resp == "timeout" and s.p.poll() is None:
                    res.inconclusive.append({"why": "watchdog", "case": case})
                else:
                    res.violation("server-died", "died", s.stderr[-300:].decode("utf-8", "replace"), case)
                s.kill()
                s = lsp.Session(tmp)
                continue
            if "error" in resp:
                res.violation("error-response", "error", resp["error"], case)
                continue
            v = judge(text, resp.get("result"))
            if v is None:
                res.distinct.add(core.key_of(sorted(atoms), kind))
                lex, inv = classify(text)
                res.count("lexemes", len(lex))
                if len(res.samples) < 2 and kind == "valid":
                    res.sample({"text": text[:160], "data_head": resp["result"]["data"][:20]})
            else:
                res.violation(v[0], v[1], v[2], case)
    finally:
        s.shutdown(5.0)
        s.kill()
        shutil.rmtree(tmp, ignore_errors=True)
    return res.to_dict()


def workspace_shard(shard_i, nshards, payload):
    """Documents the server knows from its workspace folder (read from disk when it starts) without their having been
    opened: the answer is about the text on disk; next to them entries that cannot be read (a dangling link, a
    directory named like a source file), which are nobody's document.  Then one of them is opened and edited."""
    import os
    res = core.Result()
    tmp = core.worker_tmpdir("c15w")
    bad01 = set(payload["bad_c01"])
    try:
        for i in range(shard_i, payload["n_workspaces"], nshards):
            rng = core.rng_for(payload["seed"], "c15ws", i)
            ws = os.path.join(tmp, "ws%d" % i)
            os.makedirs(ws)
            docs = {}
            for k in range(rng.randint(3, 8)):
                name = "%s%d.%s" % (rng.choice(["unit", "Pump", "a b", "lib"]), k, rng.choice(["st", "st", "ST", "iec"]))
                docs[name] = make_doc(rng, bad01)[0]
                # stored the way editors on other systems store them: with a byte order mark, as UTF-16
                enc = rng.choice(["utf-8", "utf-8", "utf-8-sig", "utf-16-le-bom", "utf-16-be-bom"])
                data = docs[name].encode("utf-8") if enc == "utf-8" else docs[name].encode("utf-8-sig") if enc == "utf-8-sig" else \
                    (b"\xff\xfe" + docs[name].encode("utf-16-le")) if enc == "utf-16-le-bom" else (b"\xfe\xff" + docs[name].encode("utf-16-be"))
                open(os.path.join(ws, name), "wb").write(data)
                res.count("workspace-file:" + enc)
            unreadable = rng.sample(["dangling", "dangling2", "directory", "none"], rng.randint(1, 3))
            for j, u in enumerate(unreadable):
                if u.startswith("dangling"):
                    os.symlink(os.path.join(tmp, "no-such-target-%d-%d" % (i, j)), os.path.join(ws, "%s%d.st" % (rng.choice(["0", "m", "zz"]), j)))
                elif u == "directory":
                    os.makedirs(os.path.join(ws, "%sarchive.st" % rng.choice(["", "_", "z"])), exist_ok=True)
            res.count("workspace-with-unreadable-entries" if unreadable != ["none"] else "workspace")
            s = lsp.Session(tmp, workspace=ws)
            try:
                names = sorted(docs)
                rng.shuffle(names)
                edited = None
                for step, name in enumerate(names + names[:2]):
                    uri = "file://" + os.path.join(ws, name).replace(" ", "%20")
                    text = docs[name]
                    how = "disk-only"
                    if step == len(names):
                        # now as an open document with a new text
                        text = make_doc(rng, bad01)[0]
                        s.open(uri, text, 1)
                        docs[name] = text
                        edited = name
                        how = "opened"
                    rid = s.tokens(uri)
                    resp, _ = s.wait_response(rid, 20.0)
                    res.evaluations += 1
                    res.count("workspace-doc:" + how)
                    case = {"text": text, "workspace": sorted(os.listdir(ws)), "document": name, "how": how}
                    if resp is None or resp == "timeout":
                        if resp == "timeout" and s.p.poll() is None:
                            res.inconclusive.append({"why": "watchdog", "case": case})
                        else:
                            res.violation("server-died", "workspace:died", s.stderr[-300:].decode("utf-8", "replace"), case)
                        break
                    if "error" in resp:
                        res.violation("error-response", "workspace:error", resp["error"], case)
                        continue
                    v = judge(text, resp.get("result"))
                    if v is None:
                        res.distinct.add(core.key_of("ws", i, name, how))
                    else:
                        res.violation(v[0], "workspace:%s:%s" % (how, v[1]), v[2], case)
            finally:
                s.shutdown(5.0)
                s.kill()
    finally:
        shutil.rmtree(tmp, ignore_errors=True)
    return res.to_dict()


def run(tier, seed):
    core.build_plc()
    payload = {"seed": seed, "bad_c01": sorted(known_bad_atoms("C01")), "n": 800 if tier == "quick" else 20000,
               "n_workspaces": 32 if tier == "quick" else 800}
    parts = core.run_sharded(shard, payload)
    parts += core.run_sharded(workspace_shard, payload)
    w = core.Result()
    for f in core.load_findings(PROP):
        if f.get("witness"):
            ok, text = replay({"case": {"text": f["witness"]["text"]}})
            w.evaluations += 1
            w.count("witness")
            if not ok:
                w.violation("witness", "witness:" + f["id"], text, {"text": f["witness"]["text"], "finding": f["id"]})
    parts.append(w.to_dict())
    res = core.Result.merge(parts)
    extra = {
        "rule": "generated documents in random spellings (comments before tokens on the same line, multi-line and "
                "non-ASCII comments, CRLF, letter-case changes), requested after random edit histories (didOpen / "
                "didChange incl. two content changes) and with a planted invalid character in every 7th; result.data "
                "decoded with the relative encoding and compared with an independent lexical classification; "
                "distinct = distinct (atom set, document kind) whose answer decoded correctly",
        "assumptions": ["character and length are UTF-16 code units; a form feed separates tokens but "
                        "does not end a line (LSP lines end at LF, CRLF or CR)",
                        "legend entries allowed per class: identifier->variable; comment->comment; word keyword->"
                        "keyword|modifier|string; operators->operator|keyword; address->operator|variable"],
        "min_evaluations": 200,
    }
    return res, extra


def replay(case):
    core.build_plc()
    tmp = core.worker_tmpdir("c15r")
    s = lsp.Session(tmp)
    uri = "file:///w/doc.st"
    s.open(uri, case["case"]["text"], 1)
    rid = s.tokens(uri)
    resp, _ = s.wait_response(rid, 20.0)
    s.shutdown(5.0)
    s.kill()
    shutil.rmtree(tmp, ignore_errors=True)
    if not isinstance(resp, dict):
        return False, str(resp)
    v = judge(case["case"]["text"], resp.get("result"))
    return v is None, str(v)[:400]
