"""C07 - recursion is rejected exactly when the declaration graph has a cycle.

Oracle: a reference cycle test (iterative DFS) on the generated directed graph.  Only the
presence of P0010 / P0013 is judged."""
import itertools

import core

PROP = "C07"
REC = ("P0010", "P0013")


def has_cycle(n, edges):
    adj = {i: [] for i in range(n)}
    for a, b in edges:
        adj[a].append(b)
    color = [0] * n
    for s in range(n):
        if color[s]:
            continue
        stack = [(s, iter(adj[s]))]
        color[s] = 1
        while stack:
            v, it = stack[-1]
            nxt = next(it, None)
            if nxt is None:
                color[v] = 2
                stack.pop()
            elif color[nxt] == 1:
                return True
            elif color[nxt] == 0:
                color[nxt] = 1
                stack.append((nxt, iter(adj[nxt])))
    return False


def realise(kind, n, edges, order):
    """Source text of the graph in the given realisation; declarations in the given order."""
    succ = {i: [b for a, b in edges if a == i] for i in range(n)}
    decls = []
    for i in order:
        if kind == "fb":
            body = "".join(" v%d_%d : N%d;" % (i, k, j) for k, j in enumerate(succ[i]))
            if not body:
                body = " x : INT;"
            decls.append("FUNCTION_BLOCK N%d VAR%s END_VAR END_FUNCTION_BLOCK" % (i, body))
        elif kind == "struct":
            body = "".join(" e%d_%d : N%d;" % (i, k, j) for k, j in enumerate(succ[i]))
            if not body:
                body = " x : INT;"
            decls.append("TYPE N%d : STRUCT%s END_STRUCT; END_TYPE" % (i, body))
        elif kind == "mixed":
            if len(succ[i]) == 1:
                decls.append("TYPE N%d : N%d; END_TYPE" % (i, succ[i][0]))
            else:
                body = "".join(" e%d_%d : N%d;" % (i, k, j) for k, j in enumerate(succ[i]))
                if not body:
                    body = " x : INT;"
                decls.append("TYPE N%d : STRUCT%s END_STRUCT; END_TYPE" % (i, body))
        elif kind == "array":
            # element types of arrays also refer to types
            if len(succ[i]) == 1:
                decls.append("TYPE N%d : ARRAY[0..1] OF N%d; END_TYPE" % (i, succ[i][0]))
            else:
                body = "".join(" e%d_%d : N%d;" % (i, k, j) for k, j in enumerate(succ[i]))
                if not body:
                    body = " x : INT;"
                decls.append("TYPE N%d : STRUCT%s END_STRUCT; END_TYPE" % (i, body))
    if kind == "enumalias":
        # enumeration alias chains used by variables of one program: leaf = enumeration, one successor = alias of it,
        # more = structure; every alias that reaches an enumeration gets a variable initialised with one of its values
        decls = []
        for i in order:
            if len(succ[i]) == 0:
                decls.append(enum_leaf(i))
            elif len(succ[i]) == 1:
                decls.append("TYPE N%d : N%d; END_TYPE" % (i, succ[i][0]))
            else:
                body = "".join(" e%d_%d : N%d;" % (i, k, j) for k, j in enumerate(succ[i]))
                decls.append("TYPE N%d : STRUCT%s END_STRUCT; END_TYPE" % (i, body))
        vars_ = []
        for i in range(n):
            seen = set()
            j = i
            while len(succ[j]) == 1 and j not in seen:
                seen.add(j)
                j = succ[j][0]
            if len(succ[j]) == 0:
                vars_.append(" v%d : N%d := %sn%d_a;" % (i, i, "N%d#" % i if i % 3 == 1 else "", j))
                vars_.append(" w%d : N%d := n%d_b;" % (i, i, j))
        if vars_:
            decls.append("PROGRAM user VAR%s END_VAR END_PROGRAM" % "".join(vars_))
    return "\n".join(decls)


def enum_leaf(i):
    """An enumeration; by node number its values and its default are written plainly or with the name of the
    enumeration itself in front (N3#n3_a): a value named with its own type refers to nothing else"""
    q = "N%d#" % i
    form = i % 4
    vals = "%sn%d_a, %sn%d_b" % (q if form == 2 else "", i, q if form in (2, 3) else "", i)
    dflt = " := %sn%d_b" % (q if form in (1, 2) else "", i) if form else ""
    return "TYPE N%d : (%s)%s; END_TYPE" % (i, vals, dflt)


NODE_KINDS = ["fb", "struct", "alias", "arrayof"]
LEAF_KINDS = ["fb", "struct", "enum", "subrange", "array", "string"]


def hetero_vector(rng, n, edges):
    """A kind for every node: function block, structure, alias or array-of for inner nodes (alias / array-of need exactly
    one successor), any declarable type for leaves; a spelling for every reference held by a function block or a
    structure (plain `v : T;`, with an initial value `v : T := (x := 1);`, as the element type of an inline array
    `v : ARRAY[0..1] OF T;`); plus, sometimes, one reference to a name nobody declares."""
    outdeg = [0] * n
    for a, _b in edges:
        outdeg[a] += 1
    vec = []
    for i in range(n):
        if outdeg[i] == 0:
            vec.append(rng.choice(LEAF_KINDS))
        elif outdeg[i] == 1:
            vec.append(rng.choice(NODE_KINDS))
        else:
            vec.append(rng.choice(["fb", "struct"]))
    styles = {}
    for a, b in edges:
        if vec[a] in ("fb", "struct"):
            st = rng.choice(["plain", "plain", "init", "inline-array"])
            if st == "init" and vec[b] not in ("fb", "struct"):
                st = "plain"
            styles["%d-%d" % (a, b)] = st
    dangling = rng.randrange(n) if rng.random() < 0.15 else None
    # references that are NOT containment: a function block's VAR_EXTERNAL names a global of any type (its own included)
    externals = {}
    for i in range(n):
        if vec[i] == "fb" and rng.random() < 0.3:
            externals[str(i)] = [rng.randrange(n) for _ in range(rng.randint(1, 2))]
    # an alias may carry a default value: `TYPE A : B := v; END_TYPE`
    alias_default = [i for i in range(n) if vec[i] == "alias" and rng.random() < 0.4]
    # a declaration may hold several references to the same other declaration (two pumps of one type)
    mult = {}
    for a, b in edges:
        if vec[a] in ("fb", "struct") and rng.random() < 0.25:
            mult["%d-%d" % (a, b)] = rng.randint(2, 3)
    return {"kinds": vec, "dangling": dangling, "styles": styles, "externals": externals, "alias_default": alias_default,
            "mult": mult}


def realise_hetero(n, edges, order, vec):
    succ = {i: [b for a, b in edges if a == i] for i in range(n)}
    styles = vec.get("styles", {})
    decls = []
    for i in order:
        k = vec["kinds"][i]
        refs = []
        for j, b in enumerate([b_ for b_ in succ[i] for _ in range(vec.get("mult", {}).get("%d-%d" % (i, b_), 1))]):
            st = styles.get("%d-%d" % (i, b), "plain")
            if st == "init":
                refs.append("r%d_%d : N%d := (x := 1);" % (i, j, b))
            elif st == "inline-array":
                refs.append("r%d_%d : ARRAY[0..1] OF N%d;" % (i, j, b))
            else:
                refs.append("r%d_%d : N%d;" % (i, j, b))
        if vec.get("dangling") == i:
            refs.append("r%d_x : NoSuchType;" % i)
        names = ["N%d" % b for b in succ[i]] + (["NoSuchType"] if vec.get("dangling") == i else [])
        if k in ("alias", "arrayof") and len(names) != 1:
            k = "struct"
        if k == "fb":
            ext = "".join(" VAR_EXTERNAL g%d_%d : N%d; END_VAR" % (i, j, b) for j, b in enumerate(vec.get("externals", {}).get(str(i), [])))
            decls.append("FUNCTION_BLOCK N%d VAR_INPUT x : INT; END_VAR VAR %s END_VAR%s END_FUNCTION_BLOCK" % (i, " ".join(refs) or "y : INT;", ext))
        elif k == "struct":
            decls.append("TYPE N%d : STRUCT x : INT; %s END_STRUCT; END_TYPE" % (i, " ".join(refs)))
        elif k == "alias":
            decls.append("TYPE N%d : %s%s; END_TYPE" % (i, names[0], " := dflt_%d" % i if i in vec.get("alias_default", []) else ""))
        elif k == "arrayof":
            decls.append("TYPE N%d : ARRAY[0..3] OF %s; END_TYPE" % (i, names[0]))
        elif k == "enum":
            decls.append(enum_leaf(i))
        elif k == "subrange":
            decls.append("TYPE N%d : INT(0..%d); END_TYPE" % (i, i + 1))
        elif k == "array":
            decls.append("TYPE N%d : ARRAY[0..3] OF INT; END_TYPE" % i)
        else:
            decls.append("TYPE N%d : STRING[%d]; END_TYPE" % (i, i + 1))
    return "\n".join(decls)


def all_graphs(n):
    pairs = [(a, b) for a in range(n) for b in range(n)]
    for mask in range(1 << len(pairs)):
        yield [p for k, p in enumerate(pairs) if (mask >> k) & 1]


def random_graph(rng):
    n = rng.randint(5, 12)
    style = rng.randrange(5)
    edges = set()
    if style == 0:      # sparse random
        for _ in range(rng.randint(n // 2, 2 * n)):
            edges.add((rng.randrange(n), rng.randrange(n)))
    elif style == 1:    # dense DAG (acyclic by construction) with optional back edge
        for a in range(n):
            for b in range(a + 1, n):
                if rng.random() < 0.5:
                    edges.add((a, b))
        if rng.random() < 0.5:
            a = rng.randrange(1, n)
            edges.add((a, rng.randrange(0, a + 1)))
    elif style == 2:    # long chain, optionally closed
        perm = list(range(n))
        rng.shuffle(perm)
        for a, b in zip(perm, perm[1:]):
            edges.add((a, b))
        if rng.random() < 0.5:
            edges.add((perm[-1], perm[rng.randrange(n)]))
    elif style == 3:    # wide diamonds (re-convergent, acyclic)
        for b in range(1, n - 1):
            edges.add((0, b))
            edges.add((b, n - 1))
        if rng.random() < 0.3:
            edges.add((n - 1, rng.randrange(n)))
    else:               # a cycle that is not reachable from node 0
        k = rng.randint(2, n - 2)
        for a in range(1, k):
            edges.add((0, a))
        cyc = list(range(k, n))
        for a, b in zip(cyc, cyc[1:] + cyc[:1]):
            if rng.random() < 0.9:
                edges.add((a, b))
    return n, sorted(edges)


STD_LIKE = ["TON", "TOF", "TP", "SR", "RS", "CTU", "CTD", "CTUD", "R_TRIG", "F_TRIG", "RTC", "Debounce", "Machine",
            "timer_1", "Valve", "SEMA"]


def rename_nodes(text, n, rng):
    """Declarations are called what people call them: among others like the standard function blocks (TON, SR, CTU,
    ...), which are ordinary identifiers that a library may declare itself."""
    import re
    k = min(n, rng.randint(1, 4))
    which = rng.sample(range(n), k)
    names = rng.sample(STD_LIKE, k)
    table = dict(zip(which, names))
    return re.sub(r"\bN(\d+)\b", lambda m: table.get(int(m.group(1)), m.group(0)), text), table


def judge(res, probe, kind, n, edges, order, bad_kinds, recase_rng=None, vec=None, text=None):
    renamed = None
    if text is not None:
        recase_rng = None
    elif kind == "hetero":
        text = realise_hetero(n, edges, order, vec)
    else:
        text = realise(kind, n, edges, order)
    if recase_rng is not None and recase_rng.random() < 0.5:
        text, renamed = rename_nodes(text, n, recase_rng)
        res.count("renamed-like-standard-fb")
    if recase_rng is not None:
        # identifiers are case-insensitive: a reference spelled in another letter case is the same edge
        import vgen
        text = vgen.recase_identifiers(text, recase_rng, 0.5)
    files = [["c07.st", text]]
    if recase_rng is not None and renamed is None and "\n" in text and recase_rng.random() < 0.6:
        # the declarations spread over two or three files: a cycle may cross file boundaries
        lines = text.split("\n")
        k_ = recase_rng.randint(2, 3)
        buckets = [[] for _ in range(k_)]
        for ln in lines:
            buckets[recase_rng.randrange(k_)].append(ln)
        files = [["c07_%d.st" % j_, "\n".join(b_) + "\n"] for j_, b_ in enumerate(buckets) if b_]
        res.count("spread-over-files")
    obs = probe.run({"op": "analyze", "files": files})
    res.evaluations += 1
    res.count("kind:" + kind)
    case = {"kind": kind, "n": n, "edges": edges, "order": order, "text": text, "recased": recase_rng is not None,
            "renamed": renamed, "files": files if len(files) > 1 else None}
    if vec is not None:
        case["node_kinds"] = vec
        res.seen("hetero_kind_sets", "+".join(sorted(set(vec["kinds"]))) + ("+dangling" if vec["dangling"] is not None else ""))
        for st in set(vec.get("styles", {}).values()):
            res.seen("reference_spellings", st)
        if vec.get("externals"):
            res.seen("reference_spellings", "var-external (no edge)")
        if vec.get("alias_default"):
            res.seen("reference_spellings", "alias-with-default")
        if vec.get("mult"):
            res.seen("reference_spellings", "repeated-reference")
    if obs.get("watchdog"):
        res.inconclusive.append({"why": "watchdog", "case": case})
        return
    if "died" in obs or "panic" in obs:
        res.violation("crash", kind + ":crash", obs.get("panic", obs.get("died")), case)
        return
    if any(not p["ok"] for p in obs.get("parse", [])):
        raise core.MachineryError("generated graph program does not parse: %s" % text[:200])
    codes = [d["code"] for d in obs.get("diags", [])]
    flagged = any(c in REC for c in codes)
    cyc = has_cycle(n, edges)
    res.count("cyclic" if cyc else "acyclic")
    if cyc and not flagged:
        self_loop = any(a == b for a, b in edges)
        res.violation("cycle-accepted", "%s:missed:%s" % (kind, "selfloop" if self_loop and len(edges) == 1 else "cycle"),
                      {"codes": codes}, case)
    elif not cyc and flagged:
        res.violation("acyclic-rejected", "%s:false-recursion" % kind, {"codes": codes}, case)
    else:
        res.distinct.add(core.key_of(kind, n, edges))


def shard(shard_i, nshards, payload):
    res = core.Result()
    seed = payload["seed"]
    kinds = payload["kinds"]
    probe = core.Probe()
    idx = 0
    try:
        for n in payload["exhaustive_n"]:
            for edges in all_graphs(n):
                idx += 1
                if idx % nshards != shard_i:
                    continue
                rng = core.rng_for(seed, "c07", n, edges)
                for kind in kinds:
                    order = list(range(n))
                    rng.shuffle(order)
                    judge(res, probe, kind, n, edges, order, (), rng if idx % 3 == 0 else None,
                          vec=hetero_vector(rng, n, edges) if kind == "hetero" else None)
        # sampled 4-node graphs (quick) and random larger graphs
        for i in range(shard_i, payload["n_sample4"], nshards):
            rng = core.rng_for(seed, "c07s4", i)
            pairs = [(a, b) for a in range(4) for b in range(4)]
            mask = rng.getrandbits(16) & rng.getrandbits(16) if rng.random() < 0.5 else rng.getrandbits(16)
            edges = [p for k, p in enumerate(pairs) if (mask >> k) & 1]
            for kind in kinds:
                order = list(range(4))
                rng.shuffle(order)
                judge(res, probe, kind, 4, edges, order, (), rng if i % 3 == 0 else None,
                      vec=hetero_vector(rng, 4, edges) if kind == "hetero" else None)
        # deep linear chains (acyclic however long) and the same chains closed into one long cycle
        deep = [(kind, n, closed) for kind in ("enumalias", "fb", "struct", "mixed", "array") for n in payload["deep"]
                for closed in (False, True)]
        for i, (kind, n, closed) in enumerate(deep):
            if i % nshards != shard_i:
                continue
            edges = [(a, a + 1) for a in range(n - 1)] + ([(n - 1, 0)] if closed else [])
            rng = core.rng_for(seed, "c07deep", i)
            order = list(range(n))
            if i % 3:
                rng.shuffle(order)
            judge(res, probe, kind, n, edges, order, ())
            res.seen("deep_chain_lengths", n)
        for i in range(shard_i, payload["n_random"], nshards):
            rng = core.rng_for(seed, "c07r", i)
            n, edges = random_graph(rng)
            for kind in kinds:
                order = list(range(n))
                rng.shuffle(order)
                judge(res, probe, kind, n, edges, order, (), rng if i % 3 == 0 else None,
                      vec=hetero_vector(rng, n, edges) if kind == "hetero" else None)
            if len(res.samples) < 2:
                res.sample({"n": n, "edges": edges, "cyclic": has_cycle(n, edges), "text": realise("fb", n, edges, list(range(n)))[:300]})
    finally:
        probe.close()
    return res.to_dict()


def run(tier, seed):
    core.build_probe()
    kinds = ["fb", "struct", "mixed", "array", "enumalias", "hetero", "hetero"]
    if tier == "quick":
        payload = {"seed": seed, "kinds": kinds, "exhaustive_n": [1, 2, 3], "n_sample4": 2000, "n_random": 400,
                   "deep": [15, 16, 17, 24, 33, 64, 65, 100, 200]}
    else:
        payload = {"seed": seed, "kinds": kinds, "exhaustive_n": [1, 2, 3, 4], "n_sample4": 0, "n_random": 20000,
                   "deep": list(range(13, 70)) + [100, 128, 129, 200, 256, 257, 400]}
    parts = core.run_sharded(shard, payload)
    parts.append(witnesses().to_dict())
    res = core.Result.merge(parts)
    exhaustive4 = tier == "thorough"
    extra = {
        "rule": "every directed graph with self-loops on <= %d nodes (%s), sampled 4-node graphs and random graphs on "
                "5-12 nodes (sparse, dense DAG + back edge, chains, diamonds, cycles unreachable from the first "
                "declaration), linear chains of 15-200 declarations (open and closed into one cycle), each realised as function-block instance graph, structure graph, mixed alias/structure "
                "graph, array-element graph and (twice) as a heterogeneous graph whose nodes are independently function "
                "blocks, structures, aliases or array-of types with enumeration / subrange / array / string leaves and an "
                "occasional reference to an undeclared name, declaration order shuffled; judged against a reference DFS cycle test; "
                "distinct = distinct (realisation, graph) pairs that agreed" % (4 if exhaustive4 else 3,
                                                                            "2+16+512+65536 graphs" if exhaustive4 else "2+16+512 graphs"),
        "exhaustive": exhaustive4,
        "assumptions": ["only the presence of P0010/P0013 is judged; other diagnostics on exotic type graphs are ignored"],
        "min_evaluations": 1000,
        "coverage": {"exhaustive_up_to_nodes": 4 if exhaustive4 else 3},
    }
    return res, extra


def judge_text(res, probe, text, cyclic, tag):
    obs = probe.run({"op": "analyze", "files": [["c07.st", text]]})
    res.evaluations += 1
    res.count("witness")
    case = {"kind": "witness", "text": text, "cyclic": cyclic, "finding": tag}
    if obs.get("watchdog"):
        res.inconclusive.append({"why": "watchdog", "case": case})
        return
    if "died" in obs or "panic" in obs:
        res.violation("crash", "witness:crash", obs.get("panic", obs.get("died")), case)
        return
    codes = [d["code"] for d in obs.get("diags", [])]
    flagged = any(c in REC for c in codes)
    if cyclic and not flagged:
        res.violation("cycle-accepted", "witness:%s" % tag, {"codes": codes}, case)
    elif not cyclic and flagged:
        res.violation("acyclic-rejected", "witness:%s" % tag, {"codes": codes}, case)


def witnesses():
    """The witnesses of every finding (open or fixed) are judged again on every run."""
    res = core.Result()
    fs = [f for f in core.load_findings(PROP) if f.get("witness")]
    if not fs:
        return res
    probe = core.Probe()
    try:
        for f in fs:
            for text in f["witness"]["texts"]:
                judge_text(res, probe, text, f["witness"]["cyclic"], f["id"])
    finally:
        probe.close()
    return res


def replay(case):
    if case["case"].get("kind") == "witness":
        core.build_probe()
        c = case["case"]
        res = core.Result()
        probe = core.Probe()
        judge_text(res, probe, c["text"], c["cyclic"], c.get("finding", "?"))
        probe.close()
        if res.violations:
            v = res.violations[0]
            return False, "%s %s %s" % (v["kind"], v["sig"], v["detail"])
        return True, "held"
    return replay_graph(case)


def replay_graph(case):
    core.build_probe()
    c = case["case"]
    res = core.Result()
    probe = core.Probe()
    if c.get("files"):
        obs = probe.run({"op": "analyze", "files": c["files"]})
        probe.close()
        flagged = any(d["code"] in REC for d in obs.get("diags", []))
        cyc = has_cycle(c["n"], [tuple(e) for e in c["edges"]])
        return flagged == cyc, "cyclic=%s flagged=%s codes=%s" % (cyc, flagged, [d["code"] for d in obs.get("diags", [])])
    judge(res, probe, c["kind"], c["n"], [tuple(e) for e in c["edges"]], c["order"], (), text=c.get("text"))
    probe.close()
    if res.violations:
        v = res.violations[0]
        return False, "%s %s %s" % (v["kind"], v["sig"], v["detail"])
    return True, "held"
