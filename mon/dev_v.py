import sys, json, collections, random
sys.path.insert(0, '/verif/mon')
import core, vgen
core.build_probe()
p = core.Probe()
N = int(sys.argv[1]) if len(sys.argv) > 1 else 300
c = collections.Counter(); ex = {}
for i in range(N):
    rng = random.Random(i)
    g = vgen.VGen(rng)
    decls = g.unit()
    text = vgen.render_unit(decls)
    o = p.run({"op": "analyze", "files": [["v.st", text]]})
    if "panic" in o: k = "PANIC " + o["panic"]["message"][:80]
    elif not o["parse"][0]["ok"]:
        d = o["parse"][0]["diag"]; k = "PARSE " + text[max(0, d["primary"]["start"] - 40):d["primary"]["end"] + 10].replace("\n", " ")
    elif o["ok"]: k = "OK"
    else:
        k = "ERR " + ",".join("%s[%s|%s]" % (d["code"], d["primary"]["msg"][:60], text[d["primary"]["start"]:d["primary"]["end"]][:20]) for d in o["diags"][:2])
    c[k[:160]] += 1; ex.setdefault(k[:160], text)
for k, v in c.most_common(25): print(v, k)
if len(sys.argv) > 2:
    for k in ex:
        if k != "OK": print("=====", k); print(ex[k][:1500]); break
