"""C13 - command-line contract: exit status, OK line and diagnostics always agree.

Observed at the real binary: (1) check: exit 0 <=> 'OK' on stdout <=> no coded diagnostic on stderr;
non-zero exit => at least one error[Pnnnn] and no OK; (2) `check dir` == `check f1 .. fn` for the
files of the directory; (3) echo / tokenize exit 0 exactly when every file parses / tokenizes
(reference: the in-process probe); (4) never exit 101 / die by signal."""
import itertools
import os
import re
import shutil

import core
import vgen

PROP = "C13"
LEX_BAD = "PROGRAM lexbad VAR x : INT; END_VAR x := ?; END_PROGRAM\n"
SYN_BAD = "PROGRAM synbad VAR x : INT END_VAR x := 1; END_PROGRAM\n"
CODE = re.compile(r"error\[(P\d{4})\]")
FILELESS = ["FUNCTION_BLOCK %(p)sF VAR CONSTANT L : ARRAY [1..3] OF INT := [1,2,3]; END_VAR END_FUNCTION_BLOCK\n",
            "TYPE %(p)sA : ARRAY[0..3] OF INT; %(p)sAA : %(p)sA; %(p)sA2 : %(p)sAA; END_TYPE\n"]
COUNTS = [1, 2, 3, 100, 254, 255, 256, 257, 258, 300, 511, 512, 513, 768, 1024, 1025]


def contract(r, cmd):
    """Violations of the stdout/stderr/exit agreement for one invocation."""
    out = []
    if r["rc"] is None or r["rc"] < 0 or r["rc"] == 101 or r["rc"] >= 128:
        pm = core.cli_panic(r["err"])
        out.append(("crash", "%s:crash:%s" % (cmd, (pm[0] + ":" + pm[1][:40]) if pm else r["rc"]), r["err"][-300:]))
        return out
    has_ok = any(l.strip() == "OK" for l in r["out"].splitlines())
    codes = CODE.findall(r["err"])
    if cmd in ("check", "tokenize"):
        if (r["rc"] == 0) != has_ok:
            out.append(("exit-ok-disagree", "%s:exit=%d:ok=%s" % (cmd, min(r["rc"], 1), has_ok), {"stdout": r["out"][-100:]}))
    if r["rc"] == 0 and codes:
        out.append(("diagnostic-but-exit-0", "%s:exit0-with-diagnostics" % cmd, {"codes": codes}))
    if r["rc"] != 0 and not codes:
        out.append(("failure-without-diagnostic", "%s:exit%d-no-code" % (cmd, min(r["rc"], 1)),
                    {"stderr": r["err"][-200:], "stdout": r["out"][-100:]}))
    return out


def diag_set(r):
    return sorted((c[0], os.path.basename(c[2] or ""), c[3], c[4]) for c in core.parse_cli_diags(r["err"]))


def make_set(rng, avoid):
    """1-5 files: valid units with disjoint prefixes, at most one faulty file."""
    n = rng.randint(1, 5)
    files = []
    fault = rng.choice(["none", "none", "lexical", "syntax", "semantic", "fileless", "unicode"])
    for k in range(n):
        g = vgen.VGen(core.rng_for(rng.random(), k), prefix="U%d" % k, avoid=avoid)
        decls = g.unit(with_config=(k == 0 and rng.random() < 0.5), n_types=rng.randint(0, 2), n_fbs=rng.randint(0, 2),
                       n_programs=1, n_functions=rng.randint(0, 1))
        files.append(["u%d.st" % k, vgen.render_unit(decls), decls])
    if n >= 2 and rng.random() < 0.3:
        # two paths that differ only in letter case are two files
        files[0][0] = "Pump.st"
        files[1][0] = "pump.st"
    elif rng.random() < 0.4:
        # names as projects have them: blanks, commas, non-ASCII letters, leading dashes
        for f_, nm in zip(files, core.file_names(rng, n)):
            f_[0] = nm
    if rng.random() < 0.08:
        # a valid file with one long flat expression (every command reads it on the same terms)
        files.append(["long%d.st" % n, "PROGRAM LongSum%d\nVAR x : INT; END_VAR\nx := %s;\nEND_PROGRAM\n" % (
            n, " + ".join(["x"] * rng.choice([600, 1500, 3000]))), []])
        n += 1
    bad_index = None
    if fault != "none":
        bad_index = rng.randrange(n)
        if fault == "unicode":
            # a faulty file whose offending token / comment / string is long and full of multi-byte characters
            import hostile
            files[bad_index][1] = hostile.unicode_case(rng)
        elif fault == "fileless":
            # a failure whose only diagnostic carries no file position (answers built without a source span)
            files[bad_index][1] = rng.choice(FILELESS) % {"p": "U%d" % bad_index}
        elif fault == "lexical":
            # a program with an invalid character in it, or a file that is nothing but invalid characters (no token, no
            # line break - nothing for a listing to show) or that has them first or last
            files[bad_index][1] = rng.choice([LEX_BAD, LEX_BAD, "?", "@@", "? ?", "\\", "§", "?\n", "\n?", " ?",
                                              "PROGRAM onlyjunkafter END_PROGRAM ?", "? PROGRAM junkfirst END_PROGRAM\n"])
        elif fault == "syntax":
            files[bad_index][1] = SYN_BAD
        else:
            faults = [f for f in vgen.plant_all(files[bad_index][2]) if not f[1].endswith("rhs-enum-target")]
            if faults:
                files[bad_index][1] = vgen.render_unit(rng.choice(faults)[2])
            else:
                fault = "none"
    return [(n_, t) for n_, t, _ in files], fault


def shard(shard_i, nshards, payload):
    res = core.Result()
    tmp = core.worker_tmpdir("c13")
    probe = core.Probe()
    try:
        for i in range(shard_i, payload["n"], nshards):
            rng = core.rng_for(payload["seed"], "c13", i)
            files, fault = make_set(rng, payload["avoid"])
            d = os.path.join(tmp, "s%d" % i)
            os.makedirs(d)
            linked = rng.randrange(len(files)) if rng.random() < 0.35 else None
            for k_, (n_, t) in enumerate(files):
                if k_ == linked:
                    # the source lives elsewhere and is linked into the directory
                    os.makedirs(os.path.join(tmp, "elsewhere%d" % i), exist_ok=True)
                    real = os.path.join(tmp, "elsewhere%d" % i, n_)
                    open(real, "w").write(t)
                    os.symlink(real, os.path.join(d, n_))
                    res.count("symlinked-source")
                else:
                    open(os.path.join(d, n_), "w").write(t)
            paths = [os.path.join(d, n_) for n_, _ in files]
            expect_fail = fault not in ("none", "unicode")      # a 'unicode' file may or may not be faulty: only the contract
            # ---- check: files in several orders, the directory, a mixture, a duplicated argument
            arglists = [("files", paths), ("dir", [d])]
            if len(paths) > 1:
                perms = list(itertools.permutations(paths[:4]))
                arglists.append(("files-permuted", list(rng.choice(perms)) + paths[4:]))
                arglists.append(("duplicated", paths + [paths[0]]))
            # one file named more than once, in other spellings of its path: it is still one file
            base_ = os.path.basename(d)
            respelled = [os.path.join(d, ".", os.path.basename(paths[0])), d + "//" + os.path.basename(paths[0]),
                         os.path.join(d, "..", base_, os.path.basename(paths[0]))]
            arglists.append(("dir+file-inside", [d, rng.choice(respelled)]))
            arglists.append(("file+respelled", paths + [rng.choice(respelled)]))
            alias = os.path.join(tmp, "alias%d" % i)
            if not os.path.lexists(alias):
                os.symlink(d, alias)
            arglists.append(("dir+symlink-to-dir", [d, alias]))
            # a file next to the directory whose name begins like the directory's (plant/ and plant_io.st): its own file
            sib = d + "_io.st"
            sib_bad = (i % 2 == 0)
            open(sib, "w").write(SYN_BAD.replace("synbad", "sibling%d" % i) if sib_bad else
                                 "PROGRAM sibling%d VAR x : INT; END_VAR x := 1; END_PROGRAM\n" % i)
            sibling_lists = [("dir+sibling-with-same-prefix", [d, sib]), ("sibling-with-same-prefix+dir", [sib, d])]
            results = {}
            for name, args in sibling_lists:
                r = core.run_cli(["check"] + args, tmp)
                res.evaluations += 1
                res.count("check:" + name)
                case = {"cmd": "check", "how": name, "files": files + [(os.path.basename(sib), open(sib).read())], "fault": fault,
                        "sibling_faulty": sib_bad}
                if r["watchdog"]:
                    res.inconclusive.append({"why": "cli watchdog", "case": case})
                    continue
                for k_, sig, det in contract(r, "check"):
                    res.violation(k_, sig, det, case)
                if (sib_bad or expect_fail) and r["rc"] == 0:
                    res.violation("accepted-faulty-set", "check:%s:accepted" % name, {"stdout": r["out"][:80]}, case)
            os.unlink(sib)
            for name, args in arglists:
                r = core.run_cli(["check"] + args, tmp)
                res.evaluations += 1
                res.count("check:" + name)
                case = {"cmd": "check", "how": name, "files": files, "fault": fault}
                if r["watchdog"]:
                    res.inconclusive.append({"why": "cli watchdog", "case": case})
                    continue
                vs = contract(r, "check")
                for k_, sig, det in vs:
                    res.violation(k_, sig, det, case)
                if not vs:
                    if expect_fail and r["rc"] == 0:
                        res.violation("accepted-faulty-set", "check:%s:accepted:%s" % (name, fault), {"stdout": r["out"][:80]}, case)
                    elif not expect_fail and fault != "unicode" and r["rc"] != 0 and name not in ("duplicated",):
                        codes = CODE.findall(r["err"])
                        if set(codes) - {"P9999"}:
                            res.violation("rejected-valid-set", "check:%s:rejected:%s" % (name, ",".join(sorted(set(codes)))),
                                          {"stderr": r["err"][:300]}, case)
                        else:
                            res.unsupported += 1
                    results[name] = r
            if "files" in results and "dir" in results:
                a, b = results["files"], results["dir"]
                if (a["rc"] == 0) != (b["rc"] == 0) or (fault in ("none", "lexical", "syntax") and diag_set(a) != diag_set(b)):
                    res.violation("dir-differs-from-files", "check:dir-vs-files",
                                  {"files": [a["rc"], diag_set(a)], "dir": [b["rc"], diag_set(b)]},
                                  {"cmd": "check", "files": files, "fault": fault})
                else:
                    res.distinct.add(core.key_of("set", len(files), fault, i))
            # ---- echo / tokenize against the in-process reference
            for cmd in ("echo", "tokenize"):
                want_ok = True
                for n_, t in files:
                    if cmd == "echo":
                        o = probe.run({"op": "parse", "text": t, "dump": False})
                        good = bool(o.get("ok"))
                    else:
                        o = probe.run({"op": "tokenize", "text": t})
                        good = not o.get("diags")
                    want_ok = want_ok and good
                for name, args in (("files", paths), ("dir", [d])):
                    r = core.run_cli([cmd] + args, tmp)
                    res.evaluations += 1
                    res.count(cmd + ":" + name)
                    case = {"cmd": cmd, "how": name, "files": files, "fault": fault}
                    if r["watchdog"]:
                        res.inconclusive.append({"why": "cli watchdog", "case": case})
                        continue
                    vs = contract(r, cmd)
                    vs = [v for v in vs if v[0] == "crash" or cmd == "tokenize" or v[0] != "failure-without-diagnostic"] \
                        if cmd == "echo" else vs
                    for k_, sig, det in vs:
                        res.violation(k_, sig, det, case)
                    if (r["rc"] == 0) != want_ok:
                        res.violation("exit-disagrees-with-parse", "%s:%s:exit=%d:expected_ok=%s" % (cmd, name, min(r["rc"], 1), want_ok),
                                      {"stderr": r["err"][-200:]}, case)
                    elif not vs:
                        res.distinct.add(core.key_of(cmd, name, fault, i))
            shutil.rmtree(d, ignore_errors=True)
            shutil.rmtree(os.path.join(tmp, "elsewhere%d" % i), ignore_errors=True)
            if os.path.lexists(os.path.join(tmp, "alias%d" % i)):
                os.unlink(os.path.join(tmp, "alias%d" % i))
        # ---- odd paths (every shard runs its slice of a small fixed list)
        odd = []
        base = os.path.join(tmp, "odd")
        os.makedirs(base, exist_ok=True)
        good = os.path.join(base, "good.st")
        open(good, "w").write("PROGRAM p VAR x : INT; END_VAR x := 1; END_PROGRAM\n")
        empty = os.path.join(base, "emptydir")
        os.makedirs(empty, exist_ok=True)
        dangling = os.path.join(base, "dangling.st")
        if not os.path.lexists(dangling):
            os.symlink(os.path.join(base, "nowhere.st"), dangling)
        emptyfile = os.path.join(base, "empty.st")
        open(emptyfile, "w").write("")
        # directories with an entry that cannot be read: a dangling link (an editor's lock file), a name that is not
        # valid UTF-8; next to a good file
        dlink = os.path.join(base, "dir_dangling")
        os.makedirs(dlink, exist_ok=True)
        open(os.path.join(dlink, "good.st"), "w").write("PROGRAM p VAR x : INT; END_VAR x := 1; END_PROGRAM\n")
        if not os.path.lexists(os.path.join(dlink, ".#main.st")):
            os.symlink("someone@host.1234:567", os.path.join(dlink, ".#main.st"))
        dbytes = os.path.join(base, "dir_nonutf8")
        os.makedirs(dbytes, exist_ok=True)
        open(os.path.join(dbytes, "good.st"), "w").write("PROGRAM p VAR x : INT; END_VAR x := 1; END_PROGRAM\n")
        try:
            open(os.path.join(os.fsencode(dbytes), b"caf\xe9.st"), "w").write("PROGRAM q VAR x : INT END_VAR END_PROGRAM\n")
            nonutf8 = True
        except OSError:
            nonutf8 = False
        for cmd in ("check", "echo", "tokenize"):
            odd += [(cmd, "missing", [os.path.join(base, "missing.st")]), (cmd, "missing+good", [good, os.path.join(base, "missing.st")]),
                    (cmd, "dangling-symlink", [dangling]), (cmd, "empty-dir", [empty]), (cmd, "no-args", []),
                    (cmd, "empty-file", [emptyfile]), (cmd, "good", [good]), (cmd, "dir-with-dangling-symlink", [dlink])]
            if nonutf8:
                odd.append((cmd, "dir-with-non-utf8-name-of-bad-file", [dbytes]))
        for j, (cmd, name, args) in enumerate(odd):
            if j % nshards != shard_i:
                continue
            r = core.run_cli([cmd] + args, tmp)
            res.evaluations += 1
            res.count("odd:" + name)
            case = {"cmd": cmd, "how": name, "args": [os.path.basename(a) for a in args]}
            if r["watchdog"]:
                res.inconclusive.append({"why": "cli watchdog", "case": case})
                continue
            vs = contract(r, cmd)
            if cmd == "echo":
                vs = [v for v in vs if v[0] != "failure-without-diagnostic" or name not in ("good",)]
            for k_, sig, det in vs:
                res.violation(k_, "%s:%s" % (sig, name), det, case)
            # no file at all: `check` has nothing to accept (P0030); echo / tokenize hold vacuously
            must_fail = name in ("missing", "missing+good", "dangling-symlink", "dir-with-dangling-symlink",
                                 "dir-with-non-utf8-name-of-bad-file") or \
                (cmd == "check" and name in ("empty-dir", "no-args"))
            if must_fail and r["rc"] == 0:
                res.violation("accepted-faulty-set", "%s:%s:exit0" % (cmd, name), {"stdout": r["out"][:80]}, case)
            if not vs:
                res.distinct.add(core.key_of("odd", cmd, name))
                res.sample({"cmd": cmd, "args": name, "rc": r["rc"], "stdout": r["out"][:40], "codes": CODE.findall(r["err"])}, 3)
        # ---- what the offending token looks like: long, with multi-byte characters at every byte alignment (messages quote
        # the token; a quote cut at a fixed byte count must not land inside a character)
        align = [(ch, pad, n) for ch in ("\u00e4", "\u20ac", "\U0001F642") for pad in range(4) for n in (5, 9, 10, 11, 13, 15, 16, 17, 20, 21, 22, 31, 32, 33, 40, 63, 64, 65, 100)]
        for j, (ch, pad, n) in enumerate(align):
            if j % nshards != shard_i:
                continue
            d = os.path.join(tmp, "align%d" % j)
            os.makedirs(d)
            open(os.path.join(d, "long.st"), "w").write(
                "PROGRAM p\nVAR s : STRING; END_VAR\ns := 1 '%s%s';\nEND_PROGRAM\n" % ("a" * pad, ch * n))
            open(os.path.join(d, "good.st"), "w").write("PROGRAM g VAR x : INT; END_VAR x := 1; END_PROGRAM\n")
            for cmd, args in (("check", [os.path.join(d, "long.st")]), ("check", [d]), ("echo", [os.path.join(d, "long.st")])):
                r = core.run_cli([cmd] + args, tmp)
                res.evaluations += 1
                res.count("token-alignment-sweep")
                case = {"cmd": cmd, "how": "long-token:%s:%d:%d" % (ch.encode("unicode_escape").decode(), pad, n), "sweep": ["align", pad, n]}
                if r["watchdog"]:
                    res.inconclusive.append({"why": "cli watchdog", "case": case})
                    continue
                vs = contract(r, cmd)
                if cmd == "echo":
                    vs = [v for v in vs if v[0] == "crash"]
                for k_, sig, det in vs:
                    res.violation(k_, "%s:long-token" % sig, det, case)
                if r["rc"] == 0:
                    res.violation("accepted-faulty-set", "%s:long-token:exit0" % cmd, {"stdout": r["out"][:80]}, case)
                elif not vs:
                    res.distinct.add(core.key_of("align", cmd, len(args[0]), ch, pad, n))
            shutil.rmtree(d, ignore_errors=True)
        # ---- how many diagnostics: the agreement must hold for any number of them (the exit status is one byte wide)
        sweep = []
        for n in COUNTS:
            sweep += [("check", "n-subranges", n), ("check", "n-bad-files", n), ("check", "n-bad-files+1-good", n),
                      ("tokenize", "n-bad-characters", n), ("echo", "n-bad-files", n)]
        for j, (cmd, name, n) in enumerate(sweep):
            if j % nshards != shard_i:
                continue
            d = os.path.join(tmp, "sweep%d" % j)
            os.makedirs(d)
            if name == "n-subranges":
                body = "".join("  R%d : INT(%d..%d);\n" % (k, k + 5, k) for k in range(n))
                open(os.path.join(d, "many.st"), "w").write("TYPE\n%sEND_TYPE\n" % body)
            elif name == "n-bad-characters":
                open(os.path.join(d, "many.st"), "w").write("PROGRAM p\n" + " ?" * n + "\nEND_PROGRAM\n")
            else:
                for k in range(n):
                    open(os.path.join(d, "f%04d.st" % k), "w").write("PROGRAM p%d VAR x : INT END_VAR END_PROGRAM\n" % k)
                if name.endswith("good"):
                    open(os.path.join(d, "good.st"), "w").write("PROGRAM g VAR x : INT; END_VAR x := 1; END_PROGRAM\n")
            r = core.run_cli([cmd, d], tmp, timeout=120.0)
            res.evaluations += 1
            res.count("count-sweep:" + name)
            case = {"cmd": cmd, "how": "%s:%d" % (name, n), "sweep": [name, n]}
            if r["watchdog"]:
                res.inconclusive.append({"why": "cli watchdog", "case": case})
            else:
                ncodes = len(CODE.findall(r["err"]))
                res.seen("diagnostic_counts_observed", ncodes)
                vs = contract(r, cmd)
                for k_, sig, det in vs:
                    res.violation(k_, "%s:%s" % (sig, name), det, case)
                if r["rc"] == 0:
                    res.violation("accepted-faulty-set", "%s:%s:exit0" % (cmd, name), {"diagnostics_printed": ncodes, "n": n}, case)
                elif not vs:
                    res.distinct.add(core.key_of("sweep", cmd, name, n))
            shutil.rmtree(d, ignore_errors=True)
    finally:
        probe.close()
        shutil.rmtree(tmp, ignore_errors=True)
    return res.to_dict()


def run(tier, seed):
    core.build_probe()
    core.build_plc()
    avoid = sorted({a for f in core.load_findings("C02") if f.get("status") == "open" for a in f.get("atoms", [])})
    payload = {"seed": seed, "avoid": avoid, "n": 96 if tier == "quick" else 4000}
    parts = core.run_sharded(shard, payload)
    res = core.Result.merge(parts)
    extra = {
        "rule": "generated sets of 1-5 files (valid units; at most one faulty file: lexical, syntax, a rule fault, or a construct whose only diagnostic has no file position) given "
                "to `check` as files, permuted, as a directory and with a duplicated argument, and to `echo` / `tokenize` "
                "as files and directory; missing path, missing + good, dangling symlink, empty directory, no argument, "
                "empty file; a sweep over the number of diagnostics (1 .. 1025 inverted subranges in one file, files with a syntax error in one directory, invalid characters in one file: 254-258, 511-513, 1024/1025 included); the exit status / OK / error[...] agreement is asserted on every invocation; distinct = "
                "distinct (command, argument form, fault kind, set) that satisfied the contract",
        "assumptions": ["echo/tokenize reference = parse_program / tokenize_program in the probe",
                        "diagnostic multisets of `check dir` and `check files` are compared when at most lexical/syntax "
                        "faults are present (semantic diagnostics are order-dependent by C11's recorded finding)"],
        "min_evaluations": 300,
    }
    return res, extra


def replay(case):
    core.build_plc()
    c = case["case"]
    if "sweep" in c:
        return True, "count-sweep cases are deterministic: re-run the check"
    if "files" not in c:
        return True, "odd-path cases are replayed by re-running the check"
    tmp = core.worker_tmpdir("c13r")
    paths = []
    for n_, t in c["files"]:
        open(os.path.join(tmp, n_), "w").write(t)
        paths.append(os.path.join(tmp, n_))
    r = core.run_cli([c["cmd"]] + paths, tmp)
    vs = contract(r, c["cmd"])
    shutil.rmtree(tmp, ignore_errors=True)
    return not vs, "rc=%s %s" % (r["rc"], vs)
