//! Generic parser of Rust `{:?}` output into JSON, so that the Python oracles can walk the
//! whole library without a hand-written dumper per dsl type.
//!   struct  `Name { a: v, b: w }`  -> {"_": "Name", "a": v, "b": w}
//!   tuple   `Name(v, w)`           -> {"_": "Name", "#": [v, w]}
//!   list    `[v, w]`               -> [v, w]
//!   string  `"x"`                  -> {"s": "x"}      char `'x'` -> {"c": "x"}
//!   atom    anything else          -> "text"  (identifiers print bare; an empty Id is "")
//!   SourceSpan structs             -> null   (positions are reported separately)
use serde_json::{json, Map, Value};

pub struct P<'a> {
    s: &'a [u8],
    i: usize,
    /// running index of AddressAssignment structs in print order (= visit order)
    addr: usize,
}

impl<'a> P<'a> {
    pub fn new(s: &'a str) -> Self {
        P { s: s.as_bytes(), i: 0, addr: 0 }
    }

    fn ws(&mut self) {
        while self.i < self.s.len() && self.s[self.i] == b' ' {
            self.i += 1;
        }
    }

    fn peek(&self) -> u8 {
        if self.i < self.s.len() {
            self.s[self.i]
        } else {
            0
        }
    }

    fn quoted(&mut self, q: u8) -> String {
        // at opening quote
        self.i += 1;
        let mut out: Vec<u8> = vec![];
        while self.i < self.s.len() {
            let c = self.s[self.i];
            if c == b'\\' && self.i + 1 < self.s.len() {
                let n = self.s[self.i + 1];
                self.i += 2;
                match n {
                    b'n' => out.push(b'\n'),
                    b't' => out.push(b'\t'),
                    b'r' => out.push(b'\r'),
                    b'0' => out.push(0),
                    b'u' => {
                        // \u{XXXX}
                        let mut hex = String::new();
                        if self.peek() == b'{' {
                            self.i += 1;
                            while self.i < self.s.len() && self.s[self.i] != b'}' {
                                hex.push(self.s[self.i] as char);
                                self.i += 1;
                            }
                            self.i += 1;
                        }
                        if let Some(ch) = u32::from_str_radix(&hex, 16).ok().and_then(char::from_u32) {
                            let mut b = [0u8; 4];
                            out.extend_from_slice(ch.encode_utf8(&mut b).as_bytes());
                        }
                    }
                    other => out.push(other),
                }
                continue;
            }
            if c == q {
                self.i += 1;
                break;
            }
            out.push(c);
            self.i += 1;
        }
        String::from_utf8_lossy(&out).into_owned()
    }

    fn list(&mut self, close: u8) -> Vec<Value> {
        // after the opening bracket
        let mut items = vec![];
        loop {
            self.ws();
            if self.peek() == close {
                self.i += 1;
                break;
            }
            if self.i >= self.s.len() {
                break;
            }
            items.push(self.value());
            self.ws();
            if self.peek() == b',' {
                self.i += 1;
            }
        }
        items
    }

    pub fn value(&mut self) -> Value {
        self.ws();
        let c = self.peek();
        if c == b'"' {
            return json!({"s": self.quoted(b'"')});
        }
        if c == b'\'' {
            return json!({"c": self.quoted(b'\'')});
        }
        if c == b'[' {
            self.i += 1;
            return Value::Array(self.list(b']'));
        }
        if c == b'(' {
            self.i += 1;
            return json!({"_": "", "#": self.list(b')')});
        }
        // atom or Name{..} / Name(..)
        let start = self.i;
        while self.i < self.s.len() {
            let c = self.s[self.i];
            if c == b',' || c == b')' || c == b'}' || c == b']' || c == b'(' || c == b'{' {
                break;
            }
            self.i += 1;
        }
        let raw = String::from_utf8_lossy(&self.s[start..self.i]).trim().to_owned();
        let c = self.peek();
        let is_name = !raw.is_empty()
            && raw.bytes().all(|b| b.is_ascii_alphanumeric() || b == b'_')
            && raw.as_bytes()[0].is_ascii_uppercase();
        if c == b'{' && is_name {
            self.i += 1;
            let mut m = Map::new();
            m.insert("_".to_owned(), json!(raw));
            loop {
                self.ws();
                if self.peek() == b'}' {
                    self.i += 1;
                    break;
                }
                if self.i >= self.s.len() {
                    break;
                }
                let ks = self.i;
                while self.i < self.s.len() && self.s[self.i] != b':' {
                    self.i += 1;
                }
                let key = String::from_utf8_lossy(&self.s[ks..self.i]).trim().to_owned();
                self.i += 1;
                let v = self.value();
                m.insert(key, v);
                self.ws();
                if self.peek() == b',' {
                    self.i += 1;
                }
            }
            if raw == "SourceSpan" {
                return Value::Null;
            }
            if raw == "AddressAssignment" {
                m.insert("k".to_owned(), json!(self.addr));
                self.addr += 1;
            }
            return Value::Object(m);
        }
        if c == b'(' && is_name {
            self.i += 1;
            let items = self.list(b')');
            return json!({"_": raw, "#": items});
        }
        json!(raw)
    }
}

pub fn parse(s: &str) -> Value {
    P::new(s).value()
}
