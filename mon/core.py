"""Shared machinery: building the system under test, the probe supervisor, CLI
runner, sharding, verdict/evidence bookkeeping and known-finding matching."""
import hashlib
import json
import multiprocessing
import os
import random
import re
import select
import shutil
import signal
import subprocess
import sys
import tempfile
import time

VERIF = os.path.dirname(os.path.dirname(os.path.abspath(__file__)))
REPO = os.environ.get("VERIF_REPO", "/repo")
COMPILER = os.path.join(REPO, "compiler")
TARGET = os.path.join(VERIF, "target")
PROBE_BIN = os.path.join(TARGET, "probe", "debug", "verif-probe")
PLC_BIN = os.path.join(TARGET, "plc", "debug", "ironplcc")
WORK = os.path.join(VERIF, "work")
NCPU = min(16, os.cpu_count() or 4)

os.environ["PATH"] = os.path.expanduser("~/.cargo/bin") + ":" + os.environ.get("PATH", "")


class MachineryError(Exception):
    """The machinery itself could not run (build failure...): exit status 2."""


def _cargo_env():
    env = dict(os.environ)
    env["CARGO_NET_OFFLINE"] = "true"
    env["RUSTFLAGS"] = "--cfg ironplc_verif"
    env.pop("RUSTC_WRAPPER", None)
    return env


def _run_build(cmd, cwd, target_dir, what):
    env = _cargo_env()
    env["CARGO_TARGET_DIR"] = target_dir
    t0 = time.time()
    p = subprocess.run(cmd, cwd=cwd, env=env, stdout=subprocess.PIPE, stderr=subprocess.STDOUT, text=True)
    if p.returncode != 0:
        sys.stderr.write(p.stdout[-6000:])
        raise MachineryError("build of %s failed" % what)
    return time.time() - t0


def build_probe():
    # the lock file of the repository is what makes the offline resolution work
    lock_src = os.path.join(COMPILER, "Cargo.lock")
    lock_dst = os.path.join(VERIF, "probe", "Cargo.lock")
    if not os.path.exists(lock_dst):
        shutil.copy(lock_src, lock_dst)
    _run_build(["cargo", "build", "--offline", "-q"], os.path.join(VERIF, "probe"),
               os.path.join(TARGET, "probe"), "probe")
    if not os.path.exists(PROBE_BIN):
        raise MachineryError("probe binary missing")
    return PROBE_BIN


def build_plc():
    _run_build(["cargo", "build", "--offline", "-q", "-p", "ironplcc", "--bin", "ironplcc"], COMPILER,
               os.path.join(TARGET, "plc"), "ironplcc")
    if not os.path.exists(PLC_BIN):
        raise MachineryError("ironplcc binary missing")
    return PLC_BIN


# --------------------------------------------------------------------------
# probe supervisor (one probe process per worker, synchronous)

def proc_cpu_seconds(pid):
    """user+system CPU seconds consumed so far by a live process (None if it is gone)."""
    try:
        with open("/proc/%d/stat" % pid) as f:
            fields = f.read().rsplit(")", 1)[1].split()
        return (int(fields[11]) + int(fields[12])) / float(os.sysconf("SC_CLK_TCK"))
    except Exception:
        return None


class Probe:
    def __init__(self, binary=None, env=None):
        self.binary = binary or PROBE_BIN
        self.env = env
        self.p = None
        self.buf = b""
        self.restarts = 0
        self.counter = 0
        self.watchdogs = 0
        self.max_watchdogs = 6
        self.start()

    def start(self):
        self.p = subprocess.Popen([self.binary], stdin=subprocess.PIPE, stdout=subprocess.PIPE,
                                  stderr=subprocess.DEVNULL, env=self.env)
        self.buf = b""

    def close(self):
        if self.p is not None:
            try:
                self.p.stdin.close()
            except Exception:
                pass
            try:
                self.p.kill()
            except Exception:
                pass
            try:
                self.p.wait(timeout=5)
            except Exception:
                pass
            self.p = None

    def _readline(self, deadline):
        fd = self.p.stdout.fileno()
        while b"\n" not in self.buf:
            remaining = deadline - time.time()
            if remaining <= 0:
                return None
            r, _, _ = select.select([fd], [], [], min(remaining, 1.0))
            if not r:
                if self.p.poll() is not None:
                    # drain what is left
                    chunk = os.read(fd, 1 << 16)
                    if chunk:
                        self.buf += chunk
                        continue
                    return b""
                continue
            chunk = os.read(fd, 1 << 20)
            if not chunk:
                return b""
            self.buf += chunk
        line, self.buf = self.buf.split(b"\n", 1)
        return line

    def run(self, req, timeout=20.0):
        """Returns the observation dict.  Special keys: 'died' (process death during the
        case: signal / exit status) and 'watchdog' (wall-clock watchdog fired: inconclusive)."""
        self.counter += 1
        req = dict(req)
        req["id"] = self.counter
        data = (json.dumps(req) + "\n").encode()
        try:
            self.p.stdin.write(data)
            self.p.stdin.flush()
        except (BrokenPipeError, OSError):
            self.close()
            self.start()
            self.restarts += 1
            self.p.stdin.write(data)
            self.p.stdin.flush()
        deadline = time.time() + timeout
        began = False
        cpu0 = proc_cpu_seconds(self.p.pid) or 0.0
        while True:
            line = self._readline(deadline)
            if line is None:
                # wall-clock watchdog: by itself inconclusive; the CPU the case consumed is the deterministic part
                cpu1 = proc_cpu_seconds(self.p.pid)
                self.close()
                self.start()
                self.restarts += 1
                self.watchdogs += 1
                if self.max_watchdogs is not None and self.watchdogs > self.max_watchdogs:
                    raise MachineryError("the probe stopped answering on %d cases (wall-clock watchdog): the run is "
                                         "inconclusive; C04 decides hangs" % self.watchdogs)
                return {"watchdog": True, "began": began, "cpu_s": (cpu1 - cpu0) if cpu1 is not None else None}
            if line == b"":
                rc = None
                try:
                    rc = self.p.wait(timeout=5)
                except Exception:
                    pass
                self.close()
                self.start()
                self.restarts += 1
                return {"died": {"returncode": rc, "began": began}}
            try:
                obs = json.loads(line)
            except ValueError:
                continue
            if "begin" in obs:
                began = True
                continue
            if obs.get("id") == self.counter:
                return obs


# --------------------------------------------------------------------------
# CLI runner

ANSI = re.compile(r"\x1b\[[0-9;]*m")


def run_cli(args, tmpdir, timeout=30.0, stdin=None):
    """Runs the real ironplcc; returns dict(rc, out, err, watchdog)."""
    env = dict(os.environ)
    env["TMPDIR"] = tmpdir
    env["NO_COLOR"] = "1"
    env["RUST_BACKTRACE"] = "1"
    proc = subprocess.Popen([PLC_BIN] + args, stdout=subprocess.PIPE, stderr=subprocess.PIPE, env=env,
                            stdin=subprocess.PIPE if stdin is not None else subprocess.DEVNULL)
    try:
        out, err = proc.communicate(input=stdin, timeout=timeout)
    except subprocess.TimeoutExpired:
        cpu = proc_cpu_seconds(proc.pid)
        proc.kill()
        proc.communicate()
        return {"rc": None, "out": "", "err": "", "watchdog": True, "cpu_s": cpu}

    class _P:
        pass
    p = _P()
    p.returncode, p.stdout, p.stderr = proc.returncode, out, err
    return {"rc": p.returncode, "out": p.stdout.decode("utf-8", "replace"),
            "err": ANSI.sub("", p.stderr.decode("utf-8", "replace")), "watchdog": False,
            "err_raw": p.stderr.decode("utf-8", "replace")}


def cli_panic(err):
    """(in-repo frame file, message) of a panic printed by the binary, or None."""
    m = re.search(r"panicked at ([^\n]*?):\d+:\d+:\n([^\n]*)", err)
    if not m:
        return None
    frame = m.group(1)
    for fm in re.finditer(r"^\s+at (\S+)", err, re.M):
        if "/compiler/" in fm.group(1) and "/rustc/" not in fm.group(1) and ".cargo" not in fm.group(1):
            frame = fm.group(1)
            break
    return os.path.basename(frame.split(":")[0]), m.group(2)


DIAG_HEAD = re.compile(r"^error\[(P\d{4})\]: (.*)$")
DIAG_LOC = re.compile(r"^\s*┌─ (.*):(\d+):(\d+)\s*$")


def parse_cli_diags(err):
    """Parses codespan output into [(code, message, file, line, col)]; file/line/col are None when
    codespan could not draw a location."""
    out = []
    cur = None
    for line in err.splitlines():
        m = DIAG_HEAD.match(line)
        if m:
            if cur:
                out.append(tuple(cur))
            cur = [m.group(1), m.group(2), None, None, None]
            continue
        m = DIAG_LOC.match(line)
        if m and cur and cur[2] is None:
            cur[2] = m.group(1)
            cur[3] = int(m.group(2))
            cur[4] = int(m.group(3))
    if cur:
        out.append(tuple(cur))
    return out


def parse_cli_sections(err):
    """Parses codespan output into [(code, message, [(file, line, col), ...])]: one entry per diagnostic with every
    file section codespan drew for it (a diagnostic whose labels lie in several files has several)."""
    out = []
    cur = None
    for line in err.splitlines():
        m = DIAG_HEAD.match(line)
        if m:
            if cur:
                out.append(tuple(cur))
            cur = [m.group(1), m.group(2), []]
            continue
        m = DIAG_LOC.match(line)
        if m and cur:
            cur[2].append((m.group(1), int(m.group(2)), int(m.group(3))))
    if cur:
        out.append(tuple(cur))
    return out


# --------------------------------------------------------------------------
# sharding

def _shard_entry(args):
    fn, shard, nshards, payload = args
    signal.signal(signal.SIGINT, signal.SIG_IGN)
    try:
        return fn(shard, nshards, payload)
    except MachineryError as e:
        return {"machinery_error": str(e)}
    except Exception as e:  # harness bug: never a violation
        import traceback
        return {"machinery_error": "%s: %s\n%s" % (type(e).__name__, e, traceback.format_exc())}


def run_sharded(fn, payload, nshards=None):
    nshards = nshards or NCPU
    if nshards == 1:
        return [_shard_entry((fn, 0, 1, payload))]
    ctx = multiprocessing.get_context("fork")
    with ctx.Pool(nshards) as pool:
        res = pool.map(_shard_entry, [(fn, i, nshards, payload) for i in range(nshards)], chunksize=1)
    return res


def worker_tmpdir(tag):
    os.makedirs(WORK, exist_ok=True)
    return tempfile.mkdtemp(prefix="%s-%d-" % (tag, os.getpid()), dir=WORK)


# --------------------------------------------------------------------------
# results

class Result:
    """What one shard (or a merged run) observed."""

    def __init__(self):
        self.evaluations = 0
        self.distinct = set()       # keys of distinct non-trivial cases
        self.violations = []        # dicts: kind, sig, detail, case
        self.inconclusive = []      # dicts: why, case
        self.samples = []
        self.counters = {}
        self.sets = {}
        self.unsupported = 0
        self.machinery_error = None

    def count(self, key, n=1):
        self.counters[key] = self.counters.get(key, 0) + n

    def seen(self, name, value):
        self.sets.setdefault(name, set()).add(value)

    def sample(self, s, limit=4):
        if len(self.samples) < limit:
            self.samples.append(s)

    def violation(self, kind, sig, detail, case):
        self.count("violations_raw")
        # keep at most a few witnesses per signature
        n = sum(1 for v in self.violations if v["sig"] == sig and v["kind"] == kind)
        if n < 3:
            self.violations.append({"kind": kind, "sig": sig, "detail": detail, "case": case})
        self.counters["sig:" + kind + ":" + sig] = self.counters.get("sig:" + kind + ":" + sig, 0) + 1

    def to_dict(self):
        return {"evaluations": self.evaluations, "distinct": sorted(self.distinct), "violations": self.violations,
                "inconclusive": self.inconclusive[:50], "n_inconclusive": len(self.inconclusive),
                "samples": self.samples, "counters": self.counters,
                "sets": {k: sorted(v) for k, v in self.sets.items()}, "unsupported": self.unsupported}

    @staticmethod
    def merge(dicts):
        r = Result()
        n_inc = 0
        for d in dicts:
            if d is None:
                continue
            if "machinery_error" in d:
                r.machinery_error = d["machinery_error"]
                continue
            r.evaluations += d["evaluations"]
            r.distinct.update(d["distinct"])
            for v in d["violations"]:
                n = sum(1 for x in r.violations if x["sig"] == v["sig"] and x["kind"] == v["kind"])
                if n < 3:
                    r.violations.append(v)
            r.inconclusive.extend(d["inconclusive"])
            n_inc += d["n_inconclusive"]
            for s in d["samples"]:
                r.sample(s, 6)
            for k, v in d["counters"].items():
                r.counters[k] = r.counters.get(k, 0) + v
            for k, v in d["sets"].items():
                r.sets.setdefault(k, set()).update(v)
            r.unsupported += d["unsupported"]
        r.counters["n_inconclusive"] = n_inc
        return r


def key_of(*parts):
    h = hashlib.sha1()
    for p in parts:
        h.update(repr(p).encode())
        h.update(b"\0")
    return h.hexdigest()[:16]


# --------------------------------------------------------------------------
# known findings

def load_findings(prop):
    path = os.path.join(VERIF, "known_findings.json")
    if not os.path.exists(path):
        return []
    data = json.load(open(path))
    return [f for f in data.get("findings", []) if f.get("property") == prop]


def match_finding(findings, v):
    """A violation is explained by an OPEN finding whose kind equals and whose sig pattern fully
    matches the violation's signature.  Fixed entries never match."""
    for f in findings:
        if f.get("status") != "open":
            continue
        if "kinds" in f:
            if v["kind"] not in f["kinds"]:
                continue
        elif f.get("kind") != v["kind"]:
            continue
        if re.fullmatch(f["sig"], v["sig"]):
            return f
    return None


def rng_for(seed, *parts):
    return random.Random(key_of(seed, *parts))


NAME_STEMS = ["a", "main", "unit", "motor", "part", "lib", "my prog", "café", "v1.2", "x-y_z", "UPPER", "MiXed",
              "n" * 40, "über", "st", "1", "valve,v2", "a,b", "x;y", "q=1&r", "{tmp}", "-dash", "#hash"]


def file_names(rng, n, ext=".st", twins=0.5):
    """n distinct file names the way they occur in real projects: blanks, dots, non-ASCII letters, and names that
    differ only in letter case (motor.st / Motor.st / MOTOR.ST are three files on a case-sensitive file system)."""
    out = []

    def add(name):
        if name not in out and "/" not in name:
            out.append(name)
    guard = 0
    while len(out) < n and guard < 1000:
        guard += 1
        stem = rng.choice(NAME_STEMS)
        if rng.random() < 0.3:
            stem += str(rng.randint(0, 9))
        e = ext if rng.random() < 0.8 else ext.upper()
        add(stem + e)
        if len(out) < n and rng.random() < twins:
            tw = rng.choice([stem.upper() + e, stem.capitalize() + e, stem.swapcase() + e, stem + e.swapcase()])
            add(tw)
    rng.shuffle(out)
    return out[:n]
