"""./check <ID> [--tier quick|thorough] [--replay FILE]"""
import argparse
import importlib
import json
import os
import sys
import time

sys.path.insert(0, os.path.dirname(os.path.abspath(__file__)))
import core  # noqa: E402

sys.setrecursionlimit(20000)

LEVELS = {
    "C01": "exploration", "C02": "fault_enumeration", "C03": "fault_enumeration", "C04": "exploration",
    "C05": "exploration", "C06": "exploration", "C07": "exploration", "C08": "exploration",
    "C09": "exploration", "C10": "exploration", "C11": "exploration", "C12": "exploration",
    "C13": "exploration", "C14": "exploration", "C15": "exploration",
}


def write_evidence(prop, tier, seed, res, extra, wall, n_viol):
    cov = {
        "evaluations": res.evaluations,
        "distinct_nontrivial": len(res.distinct),
        "rule": extra.get("rule", ""),
        "samples": res.samples[:6] or extra.get("samples", []),
        "exhaustive": bool(extra.get("exhaustive", False)),
        "inconclusive": res.counters.get("n_inconclusive", 0),
        "unsupported": res.unsupported,
        "counters": {k: v for k, v in sorted(res.counters.items()) if not k.startswith("sig:")},
        "violation_signatures": {k[4:]: v for k, v in sorted(res.counters.items()) if k.startswith("sig:")},
        "observed_sets": {k: (sorted(v) if len(v) <= 60 else {"count": len(v), "first": sorted(v)[:40]})
                          for k, v in sorted(res.sets.items())},
    }
    for k, v in extra.get("coverage", {}).items():
        cov[k] = v
    ev = {
        "property_id": prop, "tier": tier, "seed": seed, "level": LEVELS[prop], "coverage": cov,
        "assumptions": extra.get("assumptions", []), "wall_s": round(wall, 2), "violations": n_viol,
        "known_findings_matched": extra.get("known", []),
    }
    os.makedirs(os.path.join(core.VERIF, "evidence"), exist_ok=True)
    path = os.path.join(core.VERIF, "evidence", prop + ".json")
    tmp = path + ".tmp"
    with open(tmp, "w") as f:
        json.dump(ev, f, indent=1, sort_keys=True, default=str)
    os.replace(tmp, path)


def main():
    ap = argparse.ArgumentParser()
    ap.add_argument("prop")
    ap.add_argument("--tier", default=os.environ.get("VERIF_TIER", "quick"))
    ap.add_argument("--replay")
    a = ap.parse_args()
    prop = a.prop.upper()
    tier = a.tier if a.tier in ("quick", "thorough") else "quick"
    try:
        seed = int(os.environ.get("VERIF_SEED", "1"))
    except ValueError:
        seed = 1
    mod = importlib.import_module(prop.lower())
    t0 = time.time()
    try:
        if a.replay:
            case = json.load(open(a.replay))
            ok, text = mod.replay(case)
            print(text)
            if not ok:
                print("VIOLATION property=%s replay=%s" % (prop, a.replay))
            sys.exit(0 if ok else 1)
        res, extra = mod.run(tier, seed)
    except core.MachineryError as e:
        print("MACHINERY-ERROR: %s" % e)
        sys.exit(2)
    if res.machinery_error:
        print("MACHINERY-ERROR: %s" % res.machinery_error)
        sys.exit(2)
    findings = core.load_findings(prop)
    known = {}
    new = []
    for v in res.violations:
        f = core.match_finding(findings, v)
        if f is not None:
            known.setdefault(f["id"], (f, v))
        else:
            new.append(v)
    # signatures counted but not kept as witnesses are covered by the kept ones (same sig)
    extra["known"] = sorted(known)
    wall = time.time() - t0
    write_evidence(prop, tier, seed, res, extra, wall, len(new))
    print("%s tier=%s seed=%d evaluations=%d distinct=%d inconclusive=%d unsupported=%d wall=%.1fs" % (
        prop, tier, seed, res.evaluations, len(res.distinct), res.counters.get("n_inconclusive", 0),
        res.unsupported, wall))
    for fid, (f, v) in sorted(known.items()):
        print("KNOWN-FINDING: property=%s %s: %s" % (prop, fid, f.get("what", f.get("description", ""))))
    rc = 0
    if new:
        rdir = os.path.join(core.VERIF, "replays", prop)
        os.makedirs(rdir, exist_ok=True)
        seen = set()
        for v in new:
            name = core.key_of(v["kind"], v["sig"])
            if name in seen:
                continue
            seen.add(name)
            path = os.path.join(rdir, name + ".json")
            with open(path, "w") as f:
                json.dump({"property": prop, "seed": seed, "tier": tier, "kind": v["kind"], "sig": v["sig"],
                           "detail": v["detail"], "case": v["case"]}, f, indent=1, default=str)
            print("VIOLATION property=%s replay=%s" % (prop, path))
            print("  kind=%s sig=%s detail=%s" % (v["kind"], v["sig"], str(v["detail"])[:300]))
        rc = 1
    if rc == 0 and not res.samples:
        print("INCONCLUSIVE: the run recorded no sample case")
        rc = 2
    min_eval = extra.get("min_evaluations", 1)
    if rc == 0 and (res.evaluations < min_eval or len(res.distinct) < 2):
        print("INCONCLUSIVE: too few cases observed (%d < %d)" % (res.evaluations, min_eval))
        rc = 2
    if rc == 0 and extra.get("inconclusive_reason"):
        print("INCONCLUSIVE: %s" % extra["inconclusive_reason"])
        rc = 2
    sys.exit(rc)


if __name__ == "__main__":
    main()
