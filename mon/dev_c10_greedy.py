import sys, json, collections, random, re
sys.path.insert(0, '/verif/mon')
import core, gen, spell, norm
from c01 import known_bad_atoms
core.build_probe()
p = core.Probe()
base = known_bad_atoms("C01")
bad = set()
def run(N, off):
    tot = collections.Counter(); bd = collections.Counter(); fails = []
    for i in range(N):
        rng = random.Random(off + i)
        g = gen.Gen(rng, avoid=base | bad, depth=2)
        toks, nf = g.library(1)
        text = spell.canonical(toks)
        o = p.run({"op": "roundtrip", "text": text})
        fail = None
        if "panic" in o or "died" in o: fail = "PANIC"
        elif not o["parse1"].get("ok"): continue
        elif not o["render1"]["ok"]: fail = "RENDERFAIL"
        elif not o["parse2"].get("ok"):
            d = o["parse2"]["diag"]; t = o["render1"]["text"]
            fail = "REPARSE " + " ".join(t[max(0, d["primary"]["start"] - 40):d["primary"]["end"] + 15].split())
        else:
            n1 = norm.library(o["parse1"]["dump"], o["parse1"]["addrs"]); n2 = norm.library(o["parse2"]["dump"], o["parse2"]["addrs"])
            d = norm.diff(n1, n2)
            if d: fail = "DIFF %s a=%s b=%s" % (re.sub(r"\[\d+\]", "[]", d[0]), json.dumps(d[1])[:50], json.dumps(d[2])[:50])
            elif o["render2"].get("text") != o["render1"]["text"]: fail = "NOTFIX"
        for a in g.atoms:
            tot[a] += 1
            if fail: bd[a] += 1
        if fail: fails.append((sorted(g.atoms), fail, text))
    return tot, bd, fails
rnd = 0
while True:
    tot, bd, fails = run(1500, rnd * 100000)
    rnd += 1
    if not fails: break
    rates = sorted(((bd[a] / tot[a], bd[a], a) for a in tot if bd[a] >= 3), reverse=True)
    if not rates or rates[0][0] < 0.6:
        print("remaining fails", len(fails)); 
        for r in rates[:10]: print("   ", r)
        for f in fails[:25]: print("  ", f[1][:170])
        break
    top = [a for r, c, a in rates if r >= 0.97][:6] or [rates[0][2]]
    ex = {}
    for a in top:
        for f in fails:
            if a in f[0]: ex[a] = f[1]; break
    for a in top:
        print("BAD %-28s %s" % (a, ex.get(a, "")[:150]))
    bad.update(top)
print(sorted(bad))
