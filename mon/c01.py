"""C01 - parsing is faithful.

Refuting events: a well-formed generated source is rejected by parse_program, or the normal form
of the returned library differs from the normal form the generator expects for the program it
spelled (dropped / duplicated / reordered / renamed / re-associated nodes all show as a structural
difference with a path)."""
import itertools
import json
import re

import core
import gen
import norm
import spell

PROP = "C01"


def known_bad_atoms(prop=PROP):
    atoms = set()
    for f in core.load_findings(prop):
        if f.get("status") == "open":
            atoms.update(f.get("atoms", []))
    return atoms


# ---------------------------------------------------------------- reference precedence parser
LEVEL = {t: lvl for (t, k, o, lvl) in gen.BIN_OPS}
NFOP = {t: (k, o) for (t, k, o, lvl) in gen.BIN_OPS}


def ref_parse(tokens):
    """Reference parser for flat operand/operator sequences (Annex B.3.1): precedence climbing,
    left-associative; unary operators bind tighter than any binary operator."""
    pos = [0]

    def primary():
        t = tokens[pos[0]]
        if t in ("-", "NOT"):
            pos[0] += 1
            return ["un", "Neg" if t == "-" else "Not", primary_only()]
        return primary_only()

    def primary_only():
        t = tokens[pos[0]]
        pos[0] += 1
        if t == "(":
            e = climb(1)
            assert tokens[pos[0]] == ")"
            pos[0] += 1
            return e
        return ["name", t.lower()]

    def climb(minlvl):
        left = primary()
        while pos[0] < len(tokens) and tokens[pos[0]] in LEVEL and LEVEL[tokens[pos[0]]] >= minlvl:
            op = tokens[pos[0]]
            pos[0] += 1
            right = climb(LEVEL[op] + 1)
            k, o = NFOP[op]
            left = [k, o, left, right]
        return left

    e = climb(1)
    assert pos[0] == len(tokens)
    return e


def operator_grid():
    """Every ordered pair of binary operators in the three shapes, plus unary placements.
    `a ** b ** c` without parentheses is not derivable from Annex B and is left out."""
    ops = [t for (t, k, o, lvl) in gen.BIN_OPS]
    cases = []
    for o1, o2 in itertools.product(ops, ops):
        if not (o1 == "**" and o2 == "**"):
            cases.append(["a", o1, "b", o2, "c"])
        cases.append(["(", "a", o1, "b", ")", o2, "c"])
        cases.append(["a", o1, "(", "b", o2, "c", ")"])
    for o in ops:
        for u in ("-", "NOT"):
            cases.append([u, "a", o, "b"])
            cases.append(["a", o, u, "b"])
            cases.append([u, "(", "a", o, "b", ")"])
            cases.append(["a", o, u, "b", o, "c"] if o != "**" else ["a", o, u, "b"])
    for o1, o2, o3 in itertools.product(["OR", "AND", "=", "<", "+", "*", "**"], repeat=3):
        if (o1 == "**" and o2 == "**") or (o2 == "**" and o3 == "**"):
            continue
        cases.append(["a", o1, "b", o2, "c", o3, "d"])
    return cases


def grid_case(seq):
    toks = [gen.K("PROGRAM"), gen.I("p"), gen.K("VAR"), gen.I("x"), gen.O(":"), gen.K("INT"), gen.O(";"),
            gen.K("END_VAR"), gen.I("x"), gen.O(":=")]
    for t in seq:
        if t.isalpha() and t.upper() == t and len(t) > 1:
            toks.append(gen.K(t))
        elif t.isalpha():
            toks.append(gen.I(t))
        else:
            toks.append(gen.O(t))
    toks += [gen.O(";"), gen.K("END_PROGRAM")]
    exp = [["program", "p", [["var", "x", "Var", "Unspecified", ["t", "int", None]]], [], [],
            ["stmts", [["assign", ["name", "x"], ref_parse(seq)]]]]]
    return toks, exp


# ---------------------------------------------------------------- judging

def short(x, n=120):
    s = json.dumps(x)
    return s if len(s) <= n else s[:n] + "..."


def judge_parse(obs, exp_nf):
    """Returns None (held) or (kind, failsig, detail)."""
    if obs.get("watchdog"):
        return ("inconclusive", "watchdog", "")
    if "died" in obs or "panic" in obs:
        p = obs.get("panic", {})
        return ("crash", "crash:" + (p.get("message", "died"))[:50], p)
    if not obs.get("ok"):
        d = obs["diag"]
        return ("rejected-valid", "reject:" + d["code"], {"code": d["code"], "label": d["primary"]})
    try:
        o_nf = norm.library(obs["dump"], obs.get("addrs"))
    except norm.NormError as e:
        return ("harness", "normerr", str(e))
    e_nf = norm.normalize_expected(exp_nf)
    d = norm.diff(e_nf, o_nf)
    if d is None:
        return None
    path = re.sub(r"\[\d+\]", "[]", d[0])
    return ("wrong-result", "diff:" + path, {"path": d[0], "expected": short(d[1]), "observed": short(d[2])})


def run_case(probe, res, toks, exp, atoms, bad_atoms, gen_name, rng, n_spell, starts=None):
    texts = [("canonical", spell.canonical(toks))]
    if starts and rng.random() < 0.5:
        # the same library the way an OSCAT export spells it (description blocks in front of declarations)
        texts.append(("oscat-headers", spell.respell(spell.with_oscat(toks, starts, rng), rng, trivia=bool(n_spell))))
    for k in range(n_spell):
        texts.append(("layout%d" % k, spell.respell(toks, rng, trivia=True)))
    if any(k == "endif;" for _t, k, _x in toks):
        # END_IF without its semicolon is part of the supported language: the same library must come out
        texts.append(("endif-semicolons-omitted", spell.respell(toks, rng, trivia=bool(n_spell), endif=True)))
    # layout-only spellings: blanks, tabs, line ends, and comments (case changes belong to C08)
    for how, text in texts:
        obs = probe.run({"op": "parse", "text": text, "file": "c01.st"})
        res.evaluations += 1
        v = judge_parse(obs, exp)
        res.count("gen:" + gen_name)
        if v is None:
            res.count("held")
            continue
        kind, fsig, detail = v
        case = {"text": text, "spelling": how, "atoms": sorted(atoms), "expected": exp}
        if kind == "inconclusive":
            res.inconclusive.append({"why": fsig, "case": case})
            continue
        if kind == "harness":
            raise core.MachineryError("normaliser does not understand the dump: %s\n%s" % (detail, text[:300]))
        bad = sorted(a for a in atoms if a in bad_atoms)
        res.violation(kind, fsig + "|" + ",".join(bad), detail, case)
        return False
    res.distinct.add(core.key_of(sorted(atoms)))
    for a in atoms:
        res.seen("atoms", a)
    return True


def shard(shard_i, nshards, payload):
    res = core.Result()
    seed = payload["seed"]
    bad = set(payload["bad_atoms"])
    probe = core.Probe()
    try:
        # 1. exhaustive operator grid (every shard takes its slice)
        grid = operator_grid()
        for i in range(shard_i, len(grid), nshards):
            toks, exp = grid_case(grid[i])
            rng = core.rng_for(seed, "c01grid", i)
            atoms = {"grid.op." + t for t in grid[i] if t in LEVEL or t in ("NOT",)}
            atoms.add("grid.shape." + "".join("(" if t == "(" else ")" if t == ")" else "o" if t in LEVEL else
                                               "u" if t in ("-", "NOT") and False else "x" for t in grid[i]))
            ok = run_case(probe, res, toks, exp, atoms, bad, "grid", rng, payload["grid_spellings"])
            if ok and i < 2:
                res.sample({"gen": "grid", "text": spell.canonical(toks)})
        res.counters["grid_cases_total"] = len(grid) if shard_i == 0 else 0
        # 2. random libraries: 2/3 clean subset, 1/3 full language
        n = payload["n_random"]
        for i in range(shard_i, n, nshards):
            rng = core.rng_for(seed, "c01rand", i)
            clean = (i % 3) != 0
            g = gen.Gen(rng, avoid=bad if clean else (), depth=rng.randint(1, 4))
            toks, exp = g.library(rng.randint(1, 12) if i % 5 else 1)
            ok = run_case(probe, res, toks, exp, g.atoms, bad, "clean" if clean else "full", rng,
                          payload["spellings"], g.decl_starts)
            if ok and i < 3 * nshards and i % nshards == shard_i and len(res.samples) < 3:
                res.sample({"gen": "random", "atoms": len(g.atoms), "text": spell.canonical(toks)[:300]})
    finally:
        probe.close()
    return res.to_dict()


def run(tier, seed):
    core.build_probe()
    bad = sorted(known_bad_atoms())
    payload = {"seed": seed, "bad_atoms": bad,
               "n_random": 9000 if tier == "quick" else 90000,
               "spellings": 2 if tier == "quick" else 3,
               "grid_spellings": 0 if tier == "quick" else 4}
    parts = core.run_sharded(shard, payload)
    res = core.Result.merge(parts)
    w = witnesses()
    res = core.Result.merge([res.to_dict(), w.to_dict()])
    all_atoms = res.sets.get("atoms", set())
    # the generator's atom universe (every production / option it can emit), by a dry run without the probe
    universe = set()
    for i in range(4000):
        r_ = core.rng_for(0, "universe", i)
        g_ = gen.Gen(r_, depth=3)
        try:
            g_.library(r_.randint(1, 6))
        except gen.Unavailable:
            pass
        universe |= g_.atoms
    never_held = sorted(a for a in universe if a not in all_atoms and not a.startswith("grid."))
    extra = {
        "rule": "exhaustive operator grid (every ordered operator pair x 3 parenthesisation shapes, unary "
                "placements, 343 operator triples) judged against a reference precedence-climbing parser; random "
                "grammar-directed libraries (1-12 declarations, nesting <= 4) judged against the normal form the "
                "generator records while spelling them; every case in canonical and in layout-varied spellings; "
                "distinct = distinct feature-atom sets of cases that held in every spelling",
        "exhaustive": False,
        "assumptions": ["normal form ignores representation choices listed in DESIGN.md App. A",
                        "known-bad atoms avoided in the clean subset: %s" % ", ".join(bad)],
        "min_evaluations": 500,
        "coverage": {"grid_exhaustive": True, "atoms_seen": len(all_atoms), "known_bad_atoms": bad,
                     "generator_atom_universe": len(universe),
                     "atoms_never_in_a_case_that_held": never_held},
    }
    return res, extra


def witnesses():
    """Finding probes: the committed witness of every finding (open or fixed) is re-judged."""
    res = core.Result()
    fs = [f for f in core.load_findings(PROP) if f.get("witness")]
    if not fs:
        return res
    bad = known_bad_atoms()
    probe = core.Probe()
    try:
        for f in fs:
            w = f["witness"]
            obs = probe.run({"op": "parse", "text": w["text"], "file": "c01.st"})
            res.evaluations += 1
            res.count("witness")
            v = judge_parse(obs, w["expected"])
            if v is None:
                continue
            kind, fsig, detail = v
            atoms = [a for a in w.get("atoms", []) if a in bad]
            res.violation(kind, fsig + "|" + ",".join(sorted(atoms)), detail,
                          {"text": w["text"], "finding": f["id"], "expected": w["expected"], "atoms": w.get("atoms", [])})
    finally:
        probe.close()
    return res


def replay(case):
    core.build_probe()
    c = case["case"]
    probe = core.Probe()
    obs = probe.run({"op": "parse", "text": c["text"], "file": "c01.st"})
    probe.close()
    v = judge_parse(obs, c["expected"])
    if v is None:
        return True, "held"
    return False, "%s %s %s" % v
