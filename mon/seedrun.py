"""seedrun.py <ID> <k> [checks...]: confirm a seeded defect produced by a sub-agent in /tmp/wt/<ID>/SEEDED/<k>
(tests still pass, demonstration fails with it and passes without), then run the checks against it by applying
the patch to /repo, and undo it straight afterwards.  Results are stored in /verif/seeded/<ID>-<k>/."""
import json
import os
import shutil
import subprocess
import sys
import time

VERIF = "/verif"
ENV = dict(os.environ, PATH=os.path.expanduser("~/.cargo/bin") + ":" + os.environ["PATH"], CARGO_NET_OFFLINE="true")


def sh(cmd, cwd=None, timeout=3600):
    p = subprocess.run(cmd, shell=True, cwd=cwd, env=ENV, stdout=subprocess.PIPE, stderr=subprocess.STDOUT, text=True,
                       errors="replace", timeout=timeout)
    return p.returncode, p.stdout


def main():
    pid, k = sys.argv[1], sys.argv[2]
    checks = [c for c in sys.argv[3:] if not c.startswith("--")] or [pid]
    wt = os.environ.get("SEEDRUN_WT") or "/tmp/wt/%s" % pid
    if k.startswith("r") and ":" in k:
        rnd, kk = k[1:].split(":")
        src = "%s/SEEDED%s/%s" % (wt, rnd, kk)
        dst = "%s/seeded/%s-r%s-%s" % (VERIF, pid, rnd, kk)
    else:
        src = "%s/SEEDED/%s" % (wt, k)
        dst = "%s/seeded/%s-%s" % (VERIF, pid, k)
    os.makedirs(dst, exist_ok=True)
    if not os.path.isdir(src):
        src = dst           # a kept change: confirm and run what is stored under /verif/seeded
    prev = {}
    keep = {}
    if os.path.exists(os.path.join(dst, "meta.json")):
        try:
            old = json.load(open(os.path.join(dst, "meta.json")))
            prev = old.get("verif", {})
            keep = {k_: v_ for k_, v_ in old.items() if k_.startswith("verif_")}
        except Exception:
            prev = {}
    if src != dst:
        for f in os.listdir(src):
            shutil.copy(os.path.join(src, f), os.path.join(dst, f))
    meta = json.load(open(os.path.join(dst, "meta.json")))
    meta.update(keep)
    demo = "demo.sh" if os.path.exists(os.path.join(dst, "demo.sh")) else None
    out = {"confirmed": {}, "checks": {}}
    if "--skip-confirm" not in sys.argv and os.path.isdir(wt):
        rc, _ = sh("git status --porcelain | grep -v SEEDED", cwd=wt)
        sh("git checkout -- .", cwd=wt)
        rc, o = sh("git apply %s/patch.diff" % src, cwd=wt)
        out["confirmed"]["applies"] = rc == 0
        rc, o = sh("cargo test --workspace --offline 2>&1 | grep -E 'FAILED|panicked|^error' | head -5", cwd=wt + "/compiler")
        out["confirmed"]["tests_pass_with_patch"] = (o.strip() == "")
        if demo:
            rc, o = sh("bash %s/%s %s" % (src, demo, wt), cwd=wt, timeout=1800)
            out["confirmed"]["demo_fails_with_patch"] = rc != 0
            out["confirmed"]["demo_output_with_patch"] = o[-400:]
        sh("git checkout -- .", cwd=wt)
        sh("git clean -fdq -e 'SEEDED*'", cwd=wt)
        if demo:
            rc, o = sh("bash %s/%s %s" % (src, demo, wt), cwd=wt, timeout=1800)
            out["confirmed"]["demo_passes_without_patch"] = rc == 0
        sh("git checkout -- .", cwd=wt)
        sh("git clean -fdq -e 'SEEDED*'", cwd=wt)
    if not out["confirmed"]:
        out["confirmed"] = prev.get("confirmed", {})
    if "--confirm-only" in sys.argv:
        out["checks"] = prev.get("checks", {})
        meta["verif"] = out
        json.dump(meta, open(os.path.join(dst, "meta.json"), "w"), indent=1)
        print(pid, k, json.dumps(out["confirmed"])[:200])
        return
    # run the checks against /repo with the patch applied
    checks = [c for c in checks if not c.startswith("--")]
    rc, o = sh("git -C /repo status --porcelain")
    if o.strip():
        print("REPO NOT CLEAN", o)
        sys.exit(2)
    rc, o = sh("git -C /repo apply %s/patch.diff" % dst)
    if rc != 0:
        print("patch does not apply to /repo:", o)
        sys.exit(2)
    saved = {}
    for c in checks:
        ep = os.path.join(VERIF, "evidence", c + ".json")
        if os.path.exists(ep):
            saved[ep] = open(ep).read()
    try:
        for c in checks:
            t0 = time.time()
            rc, o = sh("./check %s --tier quick" % c, cwd=VERIF, timeout=3600)
            lines = [l for l in o.splitlines() if l.startswith(("VIOLATION", "  kind=", "MACHINERY", "INCONCLUSIVE")) or " tier=" in l]
            out["checks"][c] = {"exit": rc, "wall_s": round(time.time() - t0, 1), "lines": lines[:12]}
            print(pid, k, c, "exit", rc, "|", " ".join(lines[:3])[:300])
    finally:
        sh("git -C /repo checkout -- .")
        sh("git -C /repo clean -fdq")
        # evidence files describe the unchanged tree only: put back what the seeded run overwrote
        for ep, text in saved.items():
            open(ep, "w").write(text)
        shutil.rmtree(os.path.join(VERIF, "replays", "tmp"), ignore_errors=True)
    key = os.environ.get("SEEDRUN_KEY")
    if key:
        # a re-run under another workload seed: kept next to the recorded result, not instead of it
        prev2 = dict(prev)
        prev2[key] = out["checks"]
        meta["verif"] = prev2
    else:
        for k_, v_ in prev.items():
            if k_.startswith("checks_seed"):
                out[k_] = v_
        meta["verif"] = out
    json.dump(meta, open(os.path.join(dst, "meta.json"), "w"), indent=1)
    print(json.dumps(out["confirmed"])[:300])


if __name__ == "__main__":
    main()
