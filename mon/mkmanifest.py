"""Regenerates /verif/MANIFEST.json from the table below (run after adding a check)."""
import json
import os
import subprocess

VERIF = os.path.dirname(os.path.dirname(os.path.abspath(__file__)))

CHECKS = {
    "C04": dict(
        category="exploration", design_ref="DESIGN.md 4 (C04), 9",
        text="Runtime monitoring of totality: tens of thousands (quick) to a million (thorough) generated hostile "
             "inputs are driven through every stage of the real crates inside a supervised probe process; the "
             "monitors are panic capture, process-death attribution, a hook-driven step clock and a CPU clock, "
             "plus the real binary's exit status on raw byte files. Exploration is the right level: absence of "
             "crashes is a statement over all inputs that can only be sampled, with the generators aimed at the "
             "input-reachable casts, unwraps and arithmetic found by reading.",
        note="Holds only for the inputs generated; budgets are 3e8 parser steps / 20 s CPU per case; the probe is "
             "built at opt-level 1 with overflow checks and debug assertions (release builds wrap instead of "
             "panicking - the value oracles of C09 cover that side). No unsafe code in ironplc; Miri/ASan runs "
             "(thorough tier) only reach dependencies.",
        technique="panic/abort/step-clock monitors over generated hostile inputs (probe + CLI exit status)"),
}

CHECKS["C01"] = dict(
    category="exploration", design_ref="DESIGN.md 4 (C01), App. A",
    text="Runtime monitoring of the parser at its public boundary: grammar-directed programs are spelled by a "
         "generator that records, independently of parser.rs, the normal form the library must have; the probe "
         "returns the real library (Debug dump plus visitor-collected addresses) and an offline oracle compares "
         "normal forms node by node. The operator sub-space (all ordered operator pairs x 3 shapes, unary "
         "placements, 343 triples) is enumerated completely against a reference precedence parser; the rest of "
         "the grammar is explored randomly (thousands to 10^5 programs, each in several layouts).",
    note="Normal form deliberately ignores representation choices (DESIGN.md App. A): LateBound vs Variable for a "
         "bare name, which initialiser variant carries a type reference, parentheses, identifier case, spans. "
         "Productions the parser does not implement (IL, VAR_TEMP, several RESOURCEs) are outside the subset and not "
         "generated; whitespace is only varied where the canonical spelling has whitespace. Genuine defects that "
         "are recorded rather than fixed are avoided in 2/3 of the workload (clean subset) and matched by signature "
         "in the rest.",
    technique="generated programs + independent expected-tree oracle (reference precedence parser), monitored at parse_program")

NOT_YET = {}


def main():
    props = [json.loads(l) for l in open(os.path.join(VERIF, "properties.jsonl"))]
    hooks = subprocess.run(["git", "-C", "/repo", "log", "--format=%H %s"], stdout=subprocess.PIPE, text=True).stdout
    hook_commits = [l.split()[0] for l in hooks.splitlines() if " verif hook:" in l]
    checks = []
    na = []
    for p in props:
        pid = p["id"]
        c = CHECKS.get(pid)
        if c is None:
            na.append({"property_id": pid, "reason": NOT_YET.get(pid, "check not built yet (in progress); not claimed")})
            continue
        checks.append({
            "property_id": pid,
            "quick_cmd": "./check %s --tier quick" % pid,
            "thorough_cmd": "./check %s --tier thorough" % pid,
            "evidence_file": "evidence/%s.json" % pid,
            "replay_cmd_template": "./check %s --replay {path}" % pid,
            "engine": "probe+monitors",
            "level_claimed": {"category": c["category"], "text": c["text"], "design_ref": c["design_ref"]},
            "level_note": c["note"],
            "technique": c["technique"],
        })
    m = {
        "version": 1,
        "setup_cmd": "./setup.sh",
        "hooks": {
            "guard": "--cfg ironplc_verif (RUSTFLAGS)",
            "enable": "RUSTFLAGS='--cfg ironplc_verif' cargo build --offline (done by mon/core.py for the probe "
                      "crate in /verif/probe and for the ironplcc binary, target dirs under /verif/target)",
            "baseline_off_cmd": "cd /repo/compiler && cargo test --workspace --no-fail-fast --offline",
            "source_commits": hook_commits,
            "add_only": True,
        },
        "engines": [{
            "name": "probe+monitors", "path": "/verif/check",
            "serves_properties": [c["property_id"] for c in checks],
            "kind_free_text": "runtime monitoring: a Rust probe process linking the real crates (hooks on) and the real "
                              "ironplcc binary are driven by generated workloads; Python oracles judge the recorded "
                              "observations offline",
        }],
        "checks": checks,
        "not_applicable": na,
        "notes": "All checks: exit 0 = held on everything explored, 1 = VIOLATION line(s), 2 = machinery could not "
                 "run or observed too little (inconclusive). VERIF_SEED selects the workload. known_findings.json "
                 "lists genuine defects that are recorded rather than repaired and the ones repaired by fix: commits.",
    }
    with open(os.path.join(VERIF, "MANIFEST.json"), "w") as f:
        json.dump(m, f, indent=1)
    print("MANIFEST.json: %d checks, %d not claimed" % (len(checks), len(na)))


if __name__ == "__main__":
    main()
