"""C12 - the language server answers every request once and survives any message sequence.

Online trace monitor over the stdio frames of the real `ironplcc lsp --stdio`:
 * every request id sent has exactly one response by the time the shutdown response arrives
   (bounded form of 'eventually'; the server is single-threaded and answers in order);
 * no response carries an id that was not requested, none is duplicated;
 * the process does not exit before 'exit' was sent;
 * after shutdown + exit it terminates with status 0 (a watchdog firing is inconclusive)."""
import shutil

import os

import core
import hostile
import lsp
import vgen

PROP = "C12"
UNIMPL_REQ = ["textDocument/hover", "textDocument/completion", "textDocument/definition", "workspace/symbol",
              "textDocument/documentSymbol", "custom/unknown", "$/ironplc/status", "$/progress", "$/unknownRequest"]
UNIMPL_NOTE = ["$/setTrace", "workspace/didChangeConfiguration", "$/cancelRequest", "textDocument/didSave",
               "textDocument/didClose", "custom/note"]


ODD_URIS = ["untitled:Untitled-1", "http://example.com/x.st", "file:///w/never-opened.st",
            "file:///w/with%20space/my%20prog.st", "file:///w/caf%C3%A9.st", "file:///w/caf%E9.st", "file:///w/%FF%FE.st",
            "file://host/share/a.st", "file:", "file:///", "file:///w/a.st?x=1#frag", "file:///w/" + "d/" * 200 + "x.st",
            "file:///C:/Users/x/a.st", "file:///w/%00.st", "FILE:///W/A.ST", "file:///w/a.st/"]
# parameters that are well-formed JSON-RPC (an object, an array, or none) but not what the method takes
BAD_PARAMS = [{}, [], None, [1, 2], {"textDocument": {}}, {"textDocument": {"uri": 5}}, {"textDocument": {"uri": "not a uri"}},
              {"textDocument": {"uri": "::::"}}, {"textDocument": None}, {"textDocument": {"uri": "file:///w/a.st"}},
              {"textDocument": {"uri": "file:///w/a.st", "version": "one"}, "contentChanges": [{"text": "x"}]},
              {"textDocument": {"uri": "file:///w/a.st", "version": 1}, "contentChanges": {"text": "x"}},
              {"textDocument": {"uri": "file:///w/a.st", "version": 1}, "contentChanges": [{"range": 1}]},
              {"textDocument": {"uri": "file:///w/a.st", "languageId": "st", "version": 1}}, {"unknown": True},
              # ... and parameters that ARE what a notification of that name takes, sent with a request id: a request is
              # answered (with an error, if the method is not one for requests), whatever its name
              {"textDocument": {"uri": "file:///w/a.st", "languageId": "st", "version": 1, "text": "PROGRAM asreq END_PROGRAM\n"}},
              {"textDocument": {"uri": "file:///w/a.st", "version": 2}, "contentChanges": [{"text": "PROGRAM asreq2 END_PROGRAM\n"}]},
              {"textDocument": {"uri": "file:///w/b.st"}},
              {"event": {"added": [{"uri": "file:///w/elsewhere", "name": "e"}], "removed": []}}]
BAD_METHODS = ["textDocument/semanticTokens/full", "textDocument/didOpen", "textDocument/didChange", "initialized", "exit-not",
               "textDocument/hover", "textDocument/didClose", "textDocument/didSave", "workspace/didChangeWorkspaceFolders",
               "textDocument/didOpen", "textDocument/didChange"]


def gen_ops(rng, docs, n, special=()):
    uris = ["file:///w/a.st", "file:///w/b.st", "file:///w/dir/c.st"]
    # special: URIs of things that exist on this machine and are not regular files (a named pipe nobody writes to, a
    # device that never ends, a directory): naming them in a message is not a reason to read them
    odd = ODD_URIS + list(special) * 2
    ops = []
    for _ in range(n):
        k = rng.randrange(15)
        if k == 14:
            # a cancellation for a request that has not been sent yet (it overtook its request, or the id is reused
            # later): the request, when it comes, is still a request
            ops.append(("cancel", rng.choice([0, 0, 1, 2, 5, -1])))
            continue
        if k == 12:
            m = rng.choice(BAD_METHODS)
            ops.append(("odd-params", m, rng.choice(BAD_PARAMS), m == "textDocument/semanticTokens/full" or
                        m == "textDocument/hover" or rng.random() < 0.3))
            continue
        if k == 13:
            ops.append(("tokens", rng.choice(uris)))
            continue
        if k < 2:
            ops.append(("open", rng.choice(uris), rng.choice(docs)))
        elif k < 4:
            ops.append(("change", rng.choice(uris), [rng.choice(docs)]))
        elif k == 4:
            ops.append(("change", rng.choice(uris), [rng.choice(docs), rng.choice(docs)]))
        elif k == 5:
            ops.append(("change", rng.choice(uris), []))
        elif k == 6:
            ops.append(("tokens", rng.choice(uris + odd)))
        elif k == 7:
            ops.append(("unimpl-request", rng.choice(UNIMPL_REQ), rng.choice(uris)))
        elif k == 8:
            ops.append(("unimpl-notification", rng.choice(UNIMPL_NOTE), rng.choice(uris)))
        elif k == 9:
            ops.append(("client-response", rng.choice(["result", "error"])))
        elif k == 10:
            ops.append(("open", rng.choice(odd), rng.choice(docs)))
        else:
            ops.append(("change", rng.choice(odd), [rng.choice(docs)]))
    return ops


def op_class(op):
    if op[0] == "odd-params":
        return "odd-params-" + ("request" if op[3] else "notification")
    if op[0] == "cancel":
        return "cancel-" + ("future-id" if op[1] >= 0 else "past-id")
    if op[0] == "change":
        return "change%d" % min(len(op[2]), 2)
    if op[0] in ("unimpl-request", "unimpl-notification"):
        return op[0]
    if op[0] == "client-response":
        return "client-response"
    if op[0] in ("open", "tokens") and not op[1].startswith("file:///w/") or op[1].endswith("never-opened.st"):
        return op[0] + "-odd-uri"
    return op[0]


def run_session(ops, tmp):
    """Returns (verdict list, trace summary).  verdicts: [(kind, sig, detail)]"""
    s = lsp.Session(tmp)
    sent_ids = {}
    order = []
    version = 1
    died_at = None
    for i, op in enumerate(ops):
        if not s.alive or s.p.poll() is not None:
            died_at = i
            break
        version += 1
        if op[0] == "open":
            s.open(op[1], op[2], version)
        elif op[0] == "change":
            s.change(op[1], op[2], version)
        elif op[0] == "tokens":
            rid = s.tokens(op[1])
            sent_ids[rid] = op_class(op)
        elif op[0] == "unimpl-request":
            rid = s.request(op[1], {"textDocument": {"uri": op[2]}, "position": {"line": 0, "character": 0}})
            sent_ids[rid] = op_class(op)
        elif op[0] == "unimpl-notification":
            s.notify(op[1], {"textDocument": {"uri": op[2]}, "value": "off", "id": 1})
        elif op[0] == "cancel":
            s.notify("$/cancelRequest", {"id": s.next_id + op[1]})
        elif op[0] == "odd-params":
            if op[3]:
                rid = s.request(op[1], op[2])
                sent_ids[rid] = op_class(op)
            else:
                s.notify(op[1], op[2])
        elif op[0] == "client-response":
            if op[1] == "result":
                s.respond(9000 + i, result=None)
            else:
                s.respond(9000 + i, error={"code": -32601, "message": "nope"})
        order.append(op_class(op))
    verdicts = []
    if s.p.poll() is not None and died_at is None:
        died_at = len(ops)
    resp, rc = (None, None)
    if s.p.poll() is None:
        # the shutdown request takes no parameters: clients send none, null, or an empty object / array
        variants = [None, lsp.OMIT, {}, []]
        sp = variants[len(repr(ops)) % 4]
        order.append("shutdown-params:" + ("omitted" if sp is lsp.OMIT else repr(sp)))
        resp, rc = s.shutdown(timeout=60.0, params=sp)
    else:
        rc = s.p.poll()
    # collect everything received
    s.drain(0.05)
    s.kill()
    responses = {}
    for d, m in s.trace:
        if d == "recv" and "id" in m and "method" not in m:
            responses.setdefault(m["id"], []).append(m)
    err = s.stderr.decode("utf-8", "replace")
    pm = core.cli_panic(core.ANSI.sub("", err))
    if died_at is not None or resp is None or resp == "timeout":
        last = order[died_at - 1] if died_at and died_at <= len(order) and died_at > 0 else (order[-1] if order else "start")
        if resp == "timeout" and (s.p.poll() is None or (rc == 0 and not pm and died_at is None)):
            # a wall-clock limit is not a verdict: the server was still working (it went on to obey the `exit` that
            # follows the unanswered `shutdown` and ended with status 0)
            verdicts.append(("inconclusive", "shutdown-watchdog", ""))
        else:
            what = ("%s:%s" % (pm[0], pm[1][:50])) if pm else "exit=%s" % rc
            # attribute to the panic message, not to the last op (ops are pipelined)
            verdicts.append(("server-died", "died:" + what, {"stderr": err[-400:], "last_op_sent": last}))
        return verdicts, s.trace
    for rid, cls in sent_ids.items():
        n = len(responses.get(rid, []))
        if n == 0:
            verdicts.append(("unanswered", "unanswered:" + cls, {"id": rid}))
        elif n > 1:
            verdicts.append(("answered-twice", "twice:" + cls, {"id": rid}))
        elif cls == "unimpl-request" and "error" not in responses[rid][0] and responses[rid][0].get("result") is not None:
            pass
    known = set(sent_ids) | {1}      # 1 = initialize
    shutdown_id = resp.get("id") if isinstance(resp, dict) else None
    for rid in responses:
        if rid not in known and rid != shutdown_id:
            verdicts.append(("spurious-response", "spurious", {"id": rid}))
    if rc is None:
        verdicts.append(("inconclusive", "exit-watchdog", ""))
    elif rc != 0:
        verdicts.append(("bad-exit", "exit:%s" % rc, {"stderr": err[-300:]}))
    return verdicts, s.trace


def shard(shard_i, nshards, payload):
    res = core.Result()
    seed = payload["seed"]
    tmp = core.worker_tmpdir("c12")
    special = []
    try:
        os.makedirs(os.path.join(tmp, "special", "folder.st"), exist_ok=True)
        os.mkfifo(os.path.join(tmp, "special", "pipe.st"))
        special = ["file://" + os.path.join(tmp, "special", "pipe.st"), "file://" + os.path.join(tmp, "special", "folder.st"),
                   "file:///dev/zero", "file:///dev/null", "file:///dev/full"]
    except OSError:
        pass
    try:
        for i in range(shard_i, payload["n"], nshards):
            rng = core.rng_for(seed, "c12", i)
            docs = [vgen.render_unit(vgen.VGen(rng).unit(n_types=1, n_fbs=1, n_programs=1)),
                    "PROGRAM p VAR x : INT; END_VAR x := y; END_PROGRAM", "PROGRAM p VAR x : INT END_VAR END_PROGRAM",
                    "PROGRAM p VAR x : INT; END_VAR x := ?; END_PROGRAM", "", "\n\n", "(* only a comment *)",
                    hostile.soup_case(rng)[:2000], hostile.literal_case(rng), hostile.random_bytes_text(rng)[:500]]
            # two documents declaring the same name: the diagnostic's labels live in different documents, one of them
            # at an offset far beyond the end of the other (and after multi-byte characters)
            filler = "(* " + "é€日 " * rng.randint(20, 200) + "*)\n"
            docs.append(filler + "FUNCTION_BLOCK Dup\nVAR x : INT; END_VAR\nx := 1;\nEND_FUNCTION_BLOCK\n")
            docs.append("FUNCTION_BLOCK Dup VAR y : INT; END_VAR y := 2; END_FUNCTION_BLOCK")
            docs.append("TYPE Dup : (a, b); END_TYPE")
            # the same words with different white space (an edit that only adds or removes blanks / blank lines), around
            # a document whose syntax error sits at its very end
            broken = "PROGRAM broken\nVAR x : INT; END_VAR\nx := 1;\nEND_PROGRAM\n\nPROGRAM unfinished\n\n\n     \n\n\n"
            docs += [broken, broken.strip(), " ".join(broken.split()), broken + "\n" * 30]
            valid_ws = docs[0]
            docs += [valid_ws.strip() + "\n" * 20, " ".join(valid_ws.split())]
            # documents being typed: cut off, ending in a non-ASCII character without a final line break
            docs += [hostile.truncate_with_tail(docs[0], rng) for _ in range(3)]
            docs += ["\ufeff" + docs[0], docs[1] + " // é", "PROGRAM p\nVAR x : INT; END_VAR\nx := 1;\n// René"]
            # long and deep (a server thread has less stack than a main thread): a sum of 150-400 terms, 40-110 nested IFs,
            # 100-200 nested parentheses; and long tokens with multi-byte characters at every alignment
            nterms = rng.choice([150, 200, 300, 400, 600, 1500, 4000, 12000])      # (up to 400 before the stack fix 88d4208)
            docs.append("PROGRAM deep1\nVAR x : INT; END_VAR\nx := " + " + ".join("x" for _ in range(nterms)) + ";\nEND_PROGRAM\n")
            nif = rng.choice([40, 80, 110])
            docs.append("PROGRAM deep2\nVAR x : BOOL; END_VAR\n" + "IF x THEN\n" * nif + "x := TRUE;\n" + "END_IF;\n" * nif + "END_PROGRAM\n")
            npar = rng.choice([100, 150, 200])
            docs.append("PROGRAM deep3\nVAR x : INT; END_VAR\nx := " + "(" * npar + "1" + ")" * npar + ";\nEND_PROGRAM\n")
            docs += [hostile.unicode_case(rng) for _ in range(3)]
            # character strings that run over line ends, followed by tokens further left on their line
            docs.append("PROGRAM p\nVAR s : STRING; END_VAR\ns        := 'a\n';s := 'b';\nEND_PROGRAM\n")
            docs.append("PROGRAM p\nVAR w : WSTRING; x : INT; END_VAR\n        w := \"é\r\n\r\n\"; x := 1;\nx := 2;\nEND_PROGRAM\n")
            # flat and long (thousands of statements, branches, labels, values, arguments ... in one construct)
            docs.append(hostile.flat_case(rng, kind=rng.choice([k for k in range(len(hostile.FLAT_KINDS)) if hostile.FLAT_KINDS[k] != "invalid-characters"])))
            # form feeds (page breaks in printed listings): between declarations, inside a line, inside a comment
            docs += [docs[0].replace("\n\n", "\n\f\n", 2), "PROGRAM p\fVAR x : INT; END_VAR\f\fx := 1; (* a\fb *)\nEND_PROGRAM\f"]
            if payload.get("clean_docs"):
                docs = docs[:7]
            ops = gen_ops(rng, docs, rng.randint(1, 60), special if i % 3 == 0 else ())
            if i % 3 == 0 and special:
                # a close, a save and a request about each of the special files
                k_ = rng.randrange(len(ops) + 1)
                su = rng.choice(special)
                ops[k_:k_] = [("odd-params", "textDocument/didClose", {"textDocument": {"uri": su}}, False), ("tokens", su),
                              ("odd-params", "textDocument/didSave", {"textDocument": {"uri": su}}, False)]
            if i % 4 == 0:
                ops = ops[:rng.randint(1, 4)]
            verdicts, trace = run_session(ops, tmp)
            res.evaluations += 1
            for o in ops:
                res.seen("op_classes", op_class(o))
            for d_, m_ in trace:
                if d_ == "send" and m_.get("method") == "shutdown":
                    res.seen("op_classes", "shutdown-params:" + ("omitted" if "params" not in m_ else repr(m_["params"])))
            res.count("messages", len(trace))
            case = {"ops": ops}
            bad = False
            for kind, sig, detail in verdicts:
                if kind == "inconclusive":
                    # isolated re-run: violation only if reproduced 3 times
                    reps = [run_session(ops, tmp)[0] for _ in range(3)]
                    if all(any(k == "inconclusive" for k, _, _ in r) for r in reps):
                        res.violation("hang", sig, "reproduced 3 times", case)
                        bad = True
                    else:
                        res.inconclusive.append({"why": sig, "case": case})
                    continue
                bad = True
                res.violation(kind, sig, detail, case)
            if not bad:
                res.distinct.add(core.key_of([op_class(o) for o in ops]))
                if len(res.samples) < 2:
                    res.sample({"ops": [[o[0]] + [str(x)[:40] for x in o[1:]] for o in ops][:12],
                                "frames": len(trace)})
    finally:
        shutil.rmtree(tmp, ignore_errors=True)
    return res.to_dict()


def run(tier, seed):
    core.build_plc()
    payload = {"seed": seed, "n": 480 if tier == "quick" else 20000}
    parts = core.run_sharded(shard, payload)
    parts.append(witnesses().to_dict())
    res = core.Result.merge(parts)
    extra = {
        "rule": "seeded random message sequences (length 1-60) over didOpen / didChange with 0, 1, 2 content changes / "
                "semanticTokens for open, unopened and non-file URIs / requests and notifications for unimplemented "
                "methods / client responses (result and error) / hostile documents, followed by shutdown and exit, "
                "against the real server process; distinct = distinct sequences of operation classes whose trace "
                "satisfied the specification",
        "assumptions": ["'eventually answered' is decided in bounded form: answered before the shutdown response",
                        "a watchdog firing is inconclusive and becomes a violation only if reproduced 3 times"],
        "min_evaluations": 100,
    }
    return res, extra


def witnesses():
    res = core.Result()
    fs = [f for f in core.load_findings(PROP) if f.get("witness")]
    if not fs:
        return res
    tmp = core.worker_tmpdir("c12w")
    try:
        for f in fs:
            ops = [tuple(o) for o in f["witness"]["ops"]]
            verdicts, _ = run_session(ops, tmp)
            res.evaluations += 1
            res.count("witness")
            for kind, sig, detail in verdicts:
                if kind != "inconclusive":
                    res.violation(kind, sig, detail, {"ops": ops, "finding": f["id"]})
    finally:
        shutil.rmtree(tmp, ignore_errors=True)
    return res


def replay(case):
    core.build_plc()
    tmp = core.worker_tmpdir("c12r")
    ops = [tuple(o) if not isinstance(o, tuple) else o for o in case["case"]["ops"]]
    v, _ = run_session(ops, tmp)
    shutil.rmtree(tmp, ignore_errors=True)
    v = [x for x in v if x[0] != "inconclusive"]
    return (not v), str(v)[:500]
