"""Rewrites the tables of DESIGN.md 7.1 / 7.2 from known_findings.json and /repo's fix: commits."""
import json
import os
import re
import subprocess

VERIF = os.path.dirname(os.path.dirname(os.path.abspath(__file__)))
d = json.load(open(os.path.join(VERIF, "known_findings.json")))
fixed = [f for f in d["findings"] if f["status"] == "fixed"]
openf = [f for f in d["findings"] if f["status"] == "open"]
log = subprocess.run(["git", "-C", "/repo", "log", "--reverse", "--format=%h %s"], stdout=subprocess.PIPE, text=True).stdout
rows = []
for l in log.splitlines():
    if " fix:" not in l:
        continue
    h, msg = l.split(" ", 1)
    props = sorted({f["property"] for f in fixed if f.get("commit") == h})
    rows.append("| `%s` | %s | %s |" % (h, msg[5:], ", ".join(props) or "-"))
t1 = ("| commit | defect (subject line of the fix) | properties whose check found it |\n|---|---|---|\n" + "\n".join(rows))
t2 = ("| id | property | what fails |\n|---|---|---|\n" +
      "\n".join("| %s | %s | %s |" % (f["id"], f["property"], f["what"].replace("|", "/")) for f in openf))
p = os.path.join(VERIF, "DESIGN.md")
s = open(p).read()
for name, t in (("fixed", t1), ("open", t2)):
    begin, end = "<!-- %s-table-begin -->" % name, "<!-- %s-table-end -->" % name
    if begin in s:
        s = re.sub(re.escape(begin) + ".*?" + re.escape(end), lambda _: begin + "\n" + t + "\n" + end, s, flags=re.S)
    else:
        head = "| commit | defect (subject line of the fix) | properties whose check found it |\n|---|---|---|\n" if name == "fixed" \
            else "| id | property | what fails |\n|---|---|---|\n"
        i = s.index(head)
        j = i + len(head)
        while s[j] == "|":
            j = s.index("\n", j) + 1
        s = s[:i] + begin + "\n" + t + "\n" + end + "\n" + s[j:]
s = re.sub(r"### 7\.1 Repaired \(\d+ commits", "### 7.1 Repaired (%d commits" % len(rows), s)
s = re.sub(r"\(\d+ `fix:` commits in /repo, \d+ open known\s+findings\)", "(%d `fix:` commits in /repo, %d open known\nfindings)" % (len(rows), len(openf)), s)
open(p, "w").write(s)
print(len(rows), "fixes,", len(openf), "open")
