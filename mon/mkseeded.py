"""Rewrites section 10's table in DESIGN.md from seeded/*/meta.json."""
import glob
import json
import os
import re

VERIF = os.path.dirname(os.path.dirname(os.path.abspath(__file__)))
FC = json.load(open(os.path.join(VERIF, "seeded", "first_contact.json")))
rows = []
for d in sorted(glob.glob(os.path.join(VERIF, "seeded", "*"))):
    mp = os.path.join(d, "meta.json")
    if not os.path.exists(mp):
        continue
    m = json.load(open(mp))
    v = m.get("verif", {})
    conf = v.get("confirmed", {})
    ok = conf.get("tests_pass_with_patch") and conf.get("demo_fails_with_patch") and conf.get("demo_passes_without_patch")
    det = []
    for c, r in sorted(v.get("checks", {}).items()):
        sig = ""
        for l in r.get("lines", []):
            mm = re.search(r"sig=(\S+)", l)
            if mm:
                sig = mm.group(1)
                break
        det.append("%s: %s%s" % (c, "**caught**" if r.get("exit") == 1 else "missed" if r.get("exit") == 0 else "exit %s" % r.get("exit"),
                                 (" (`%s`)" % sig[:60]) if sig and r.get("exit") == 1 else ""))
    fp = FC.get(os.path.basename(d))
    first = ("caught" if fp["caught"] else "missed") if fp else "?"
    if fp and fp.get("note"):
        det.append(fp["note"])
    rows.append("| %s | %s | %s | %s | %s | %s |" % (os.path.basename(d), (m.get("title") or "")[:90].replace("|", "/"),
                                                  ", ".join(os.path.basename(f) for f in m.get("files_touched", []))[:60],
                                                  "yes" if ok else "partly: %s" % json.dumps(conf)[:60], first, "; ".join(det)))
table = ("| seed | change | files | confirmed (tests pass, demo fails with / passes without) | at first contact | quick check on the patched tree now |\n"
         "|---|---|---|---|---|---|\n" + "\n".join(rows))
p = os.path.join(VERIF, "DESIGN.md")
s = open(p).read()
if "@SEEDED_TABLE@" in s:
    s = s.replace("@SEEDED_TABLE@", "<!-- seeded-table-begin -->\n" + table + "\n<!-- seeded-table-end -->")
else:
    s = re.sub(r"<!-- seeded-table-begin -->.*?<!-- seeded-table-end -->",
               lambda _: "<!-- seeded-table-begin -->\n" + table + "\n<!-- seeded-table-end -->", s, flags=re.S)
open(p, "w").write(s)
print(len(rows), "rows")
