"""C14 - file encoding is transparent: the result depends only on the decoded text.

Metamorphic monitor at the real binary: the same text stored as UTF-8, UTF-8+BOM, UTF-16LE+BOM,
UTF-16BE+BOM and (when encodable) Windows-1252 must give the same `check` exit status, codes and
line:column positions and the same `tokenize` listing.  Exhaustive byte sweep: every byte value
0x00-0xFF in a comment, in a string, between tokens and inside an identifier; random binary files:
a verdict with positions inside the decoded text, never a crash."""
import os
import re
import shutil

import core
import vgen

PROP = "C14"
C1 = {0x81, 0x8D, 0x8F, 0x90, 0x9D}


def ref_decode(data):
    """Reference decoder: BOM sniff, else strict UTF-8, else WHATWG windows-1252."""
    for bom, enc in ((b"\xef\xbb\xbf", "utf-8"), (b"\xff\xfe", "utf-16-le"), (b"\xfe\xff", "utf-16-be")):
        if data.startswith(bom):
            try:
                return data[len(bom):].decode(enc)
            except UnicodeDecodeError:
                break
    else:
        try:
            return data.decode("utf-8")
        except UnicodeDecodeError:
            pass
    return "".join(chr(b) if b in C1 else bytes([b]).decode("cp1252") for b in data)


ENCODINGS = [
    ("utf8", lambda t: t.encode("utf-8")),
    ("utf8-bom", lambda t: b"\xef\xbb\xbf" + t.encode("utf-8")),
    ("utf16le-bom", lambda t: b"\xff\xfe" + t.encode("utf-16-le")),
    ("utf16be-bom", lambda t: b"\xfe\xff" + t.encode("utf-16-be")),
    ("cp1252", lambda t: t.encode("cp1252")),
]
NON_ASCII_1252 = ["é", "ü", "ß", "€", "Ñ", "æ", "©", "±", "—", "•", "…", "“", "”", "™", "œ", "Š"]
# the characters Windows-1252 keeps in 0x80-0x9F: one byte there, three bytes in UTF-8
C1_BLOCK_1252 = "€‚ƒ„…†‡ˆ‰Š‹ŒŽ‘’“”•–—˜™š›œžŸ"
NON_ASCII_WIDE = ["日本", "λ", "Ж", "🙂", "ё", "\ufffd", "\u00ad", "\ufeff"]
TOKEN_LINE = re.compile(r"^Type: (\w+), Value: '(.*)', At: Ln (\d+),Col (\d+)$")


def decorate(text, rng, wide):
    """Adds non-ASCII characters in comments (before code on the same line) and in strings."""
    pool = NON_ASCII_1252 + (NON_ASCII_WIDE if wide else [])
    lines = text.split("\n")
    out = []
    for ln in lines:
        s = ln.strip()
        if s and rng.random() < 0.3 and not s.startswith(("END_", "VAR", "TYPE", "ELSE", "UNTIL")):
            pad = ln[:len(ln) - len(ln.lstrip())]
            ln = "%s(* %s *) %s" % (pad, "".join(rng.choice(pool) for _ in range(rng.randint(1, 4))), s)
        ln = ln.replace("'abc'", "'a%sc'" % rng.choice(pool)) if "'abc'" in ln else ln
        out.append(ln)
    return "\n".join(out)


def summary(r):
    return (r["rc"], sorted((c[0], c[3], c[4]) for c in core.parse_cli_diags(r["err"])))


def positions_inside(r, text):
    lines = text.split("\n")
    for code, msg, path, line, col in core.parse_cli_diags(r["err"]):
        if line is None:
            continue
        if line < 1 or line > len(lines) + 1:
            return (code, line, col)
        ln = lines[line - 1] if line - 1 < len(lines) else ""
        if col < 1 or col > len(ln) + 2:
            return (code, line, col)
    return None


def crashed(r):
    return r["rc"] is None or r["rc"] < 0 or r["rc"] == 101 or r["rc"] >= 128


def shard(shard_i, nshards, payload):
    res = core.Result()
    tmp = core.worker_tmpdir("c14")
    try:
        # ---- (1) same text, five encodings
        for i in range(shard_i, payload["n_docs"], nshards):
            rng = core.rng_for(payload["seed"], "c14", i)
            decls = vgen.VGen(rng, avoid=payload["avoid"]).unit(n_types=rng.randint(0, 2), n_fbs=rng.randint(0, 2),
                                                               n_programs=1, n_functions=rng.randint(0, 1))
            kind = "valid"
            if i % 2:
                faults = [f for f in vgen.plant_all(decls) if not f[1].endswith("rhs-enum-target")]
                if faults:
                    decls = rng.choice(faults)[2]
                    kind = "semantic"
            text = vgen.render_unit(decls)
            wide = (i % 3 == 0)
            ascii_body = (i % 3 == 1 and i % 4 != 3)
            if not ascii_body:
                text = decorate(text, rng, wide)
            if i % 5 == 4:
                k = text.find(";")
                text = text[:k] + " ? " + text[k:]
                kind = "lexical"
            pool = NON_ASCII_1252 + (NON_ASCII_WIDE if wide else [])
            if i % 6 == 2 and not ascii_body:
                # a long run of multi-byte characters (every alignment against any block size) before an error on
                # the same line
                blob = "".join(rng.choice(pool + ["a", " "]) for _ in range(rng.choice([3000, 6000, 12000])))
                text += "\nPROGRAM big%d\nVAR x : INT; END_VAR\n%s(* %s *) x := undeclared_big;\nEND_PROGRAM\n" % (
                    i, "a" * rng.randint(0, 3), blob)
                kind += "+big"
            if i % 6 == 5 and not ascii_body:
                # unterminated string / comment whose text (quoted in the message) is long and non-ASCII
                blob = "".join(rng.choice(pool + ["a", "b", " "]) for _ in range(rng.randint(100, 400)))
                text += "\nPROGRAM unterminated%d\nVAR s : STRING; END_VAR\ns := %s%s%s" % (
                    i, rng.choice(["'", "(* ", '"']), "a" * rng.randint(0, 3), blob)
                kind += "+unterminated"
            if i % 7 == 3 and not ascii_body:
                # an OSCAT description block (free text, blanked before lexing) with characters of every UTF-8 length
                body = "".join(rng.choice(pool + ["a", " ", "\n"]) for _ in range(rng.randint(1, 40)))
                text = "(*@KEY@:DESCRIPTION*)%s%s%s(*@KEY@:END_DESCRIPTION*)\n%s" % (
                    rng.choice(["\n", " ", ""]), body, rng.choice(["\n", " ", ""]), text)
                kind += "+oscat"
            if i % 8 == 6 and not wide:
                # a decorative banner in front (rules of dashes, bullets, quotes): more characters of the 0x80-0x9F block
                # than there are ASCII characters in the file, i.e. a file that grows more than twofold when decoded
                width = rng.choice([40, 72, 100])
                nlines = max(3, int(len(text) * rng.choice([0.6, 1.1, 2.0]) / width))
                rule = rng.choice(C1_BLOCK_1252)
                banner = "\n".join("(*%s*)" % "".join(rule if rng.random() < 0.8 else rng.choice(C1_BLOCK_1252) for _ in range(width))
                                   for _ in range(nlines))
                text = banner + "\n" + text
                kind += "+banner"
            if i % 3 == 1:
                # the file ends in a trailing comment / stray character whose last character is not ASCII, no final line
                # break: its last bytes are a multi-byte sequence (or, in Windows-1252, the start of one)
                import hostile
                if i % 2:
                    text = hostile.truncate_with_tail(text, rng, wide)
                else:
                    text = text.rstrip("\n") + rng.choice(["\n", " ", ""]) + hostile.tail(rng, wide)
                kind += "+tail" + ("-only-nonascii" if ascii_body else "")
            if i % 4 == 1:
                text = text.replace("\n", "\r\n")
            ref = None
            agreed = True
            for name, enc in ENCODINGS:
                try:
                    data = enc(text)
                except UnicodeEncodeError:
                    continue
                if name == "cp1252":
                    try:
                        data.decode("utf-8")
                        continue      # would be read as UTF-8: not a cp1252 test
                    except UnicodeDecodeError:
                        pass
                ddir = os.path.join(tmp, "dir%d_%s" % (i, name))
                os.makedirs(ddir, exist_ok=True)
                path = os.path.join(ddir, "d%d.st" % i)
                open(path, "wb").write(data)
                obs = {}
                for cmd in ("check", "tokenize", "check-dir"):
                    # the file given by name, and the directory that holds (only) it
                    r = core.run_cli(["check", ddir], tmp) if cmd == "check-dir" else core.run_cli([cmd, path], tmp)
                    res.evaluations += 1
                    res.count("%s:%s" % (cmd, name))
                    res.seen("doc_kinds", kind)
                    case = {"text": text, "encoding": name, "cmd": cmd, "kind": kind}
                    if r["watchdog"]:
                        res.inconclusive.append({"why": "cli watchdog", "case": case})
                        continue
                    if crashed(r):
                        pm = core.cli_panic(r["err"])
                        res.violation("crash", "crash:%s" % (pm[0] + ":" + pm[1][:40] if pm else r["rc"]), r["err"][-300:], case)
                        agreed = False
                        continue
                    if cmd == "check-dir":
                        obs[cmd] = summary(r)
                        if "check" in obs and obs["check"] != obs[cmd]:
                            res.violation("encoding-dependent", "dir-vs-file:%s" % name,
                                          {"file": obs["check"], "directory": obs[cmd]}, case)
                            agreed = False
                    elif cmd == "check":
                        obs[cmd] = summary(r)
                        bad = positions_inside(r, text.replace("\r\n", "\n"))
                        if bad:
                            res.violation("position-outside-text", "outside:%s" % bad[0], {"position": bad}, case)
                            agreed = False
                    else:
                        toks = [TOKEN_LINE.match(l) for l in r["out"].splitlines()]
                        obs[cmd] = (r["rc"], [(m.group(1), m.group(3), m.group(4)) for m in toks if m])
                shutil.rmtree(ddir, ignore_errors=True)
                if ref is None:
                    ref = (name, obs)
                elif obs != ref[1]:
                    agreed = False
                    which = [c for c in obs if obs.get(c) != ref[1].get(c)]
                    det = {}
                    for c in which:
                        a, b = ref[1].get(c), obs.get(c)
                        if c == "tokenize" and a and b:
                            diff = next(((x, y) for x, y in zip(a[1], b[1]) if x != y), (len(a[1]), len(b[1])))
                            det[c] = {"first_difference": diff, "rc": [a[0], b[0]]}
                        else:
                            det[c] = {ref[0]: a, name: b}
                    res.violation("encoding-dependent", "differs:%s:%s" % ("+".join(which), name), det,
                                  {"text": text, "encodings": [ref[0], name], "kind": kind})
            # ---- (1b) several files of different encodings in one run: each file is decoded on its own
            if ref is not None and "check" in ref[1] and i % 2 == 0:
                comp_text = "PROGRAM comp%d\nVAR y : INT; END_VAR\n(* gepr\u00fcft: J\u00f6rg *) y := 1;\nEND_PROGRAM\n" % i
                mdir = os.path.join(tmp, "mixed%d" % i)
                os.makedirs(mdir, exist_ok=True)
                names = {}
                for cname, cdata in (("a_comp_w1252.st", comp_text.encode("cp1252")),
                                     ("c_comp_utf16.st", b"\xff\xfe" + comp_text.replace("comp", "cmpw").encode("utf-16-le"))):
                    open(os.path.join(mdir, cname), "wb").write(cdata)
                    names[cname] = os.path.join(mdir, cname)
                for name, enc in ENCODINGS[:2] + ENCODINGS[4:]:
                    try:
                        data = enc(text)
                    except UnicodeEncodeError:
                        continue
                    if name == "cp1252":
                        try:
                            data.decode("utf-8")
                            continue
                        except UnicodeDecodeError:
                            pass
                    dpath = os.path.join(mdir, "b_doc.st")
                    open(dpath, "wb").write(data)
                    for order in (["a_comp_w1252.st", "b_doc.st"], ["b_doc.st", "a_comp_w1252.st"],
                                  ["c_comp_utf16.st", "b_doc.st", "a_comp_w1252.st"]):
                        r = core.run_cli(["check"] + [os.path.join(mdir, n_) for n_ in order], tmp)
                        res.evaluations += 1
                        res.count("check-mixed:" + name)
                        case = {"text": text, "encoding": name, "cmd": "check", "kind": kind, "with": order}
                        if r["watchdog"]:
                            res.inconclusive.append({"why": "cli watchdog", "case": case})
                        elif crashed(r):
                            pm = core.cli_panic(r["err"])
                            res.violation("crash", "crash:%s" % (pm[0] + ":" + pm[1][:40] if pm else r["rc"]), r["err"][-300:], case)
                            agreed = False
                        else:
                            # P0030 ('no content at all') belongs to the set, not to the document
                            alone = (ref[1]["check"][0], [x for x in ref[1]["check"][1] if x[0] != "P0030"])
                            mixed = summary(r)
                            mixed = (mixed[0], [x for x in mixed[1] if x[0] != "P0030"])
                            if alone != mixed:
                                res.violation("encoding-dependent", "mixed-set:%s" % name,
                                              {"alone": alone, "in_mixed_set": mixed, "order": order}, case)
                                agreed = False
                shutil.rmtree(mdir, ignore_errors=True)
            if agreed and ref is not None:
                res.distinct.add(core.key_of("doc", i))
                if len(res.samples) < 1:
                    res.sample({"text": text[:200], "check": ref[1].get("check")})
        # ---- (1c) the language server reads the files of its workspace folder from disk: a library file in each
        # encoding next to a document (sent by the editor) that uses its declarations
        import lsp
        for i in range(shard_i, payload["n_workspace"], nshards):
            rng = core.rng_for(payload["seed"], "c14ws", i)
            nonascii = rng.choice(["\u00e9", "\u00fc\u00df", "\u20ac"])
            lib = ("(* Bibliothek %s *)\nTYPE\n  WsLevel%d : (ws_low%d, ws_high%d);\nEND_TYPE\n\nFUNCTION_BLOCK WsFb%d\nVAR_INPUT a : INT; END_VAR\n"
                   "VAR s : STRING := 'gr%s'; END_VAR\na := 1;\nEND_FUNCTION_BLOCK\n" % (nonascii, i, i, i, i, nonascii))
            if i % 3 == 2:
                lib = lib.replace("\n", "\r\n")
            if i % 4 == 3:
                # a big library: about 600 KiB of text (1.2 MiB as UTF-16)
                lib = "(* " + ("generated documentation of the library, line after line. " * 10 + "\n") * 1000 + " *)\n" + lib
            main_text = "PROGRAM WsMain%d\nVAR l : WsLevel%d := ws_low%d; f : WsFb%d; x : INT; END_VAR\nf(a := 2);\nx := undeclared_ws;\nEND_PROGRAM\n" % (i, i, i, i)
            ref = None
            for name, enc in ENCODINGS:
                try:
                    data = enc(lib)
                except UnicodeEncodeError:
                    continue
                wdir = os.path.join(tmp, "ws%d_%s" % (i, name))
                os.makedirs(wdir, exist_ok=True)
                open(os.path.join(wdir, "library.st"), "wb").write(data)
                s_ = lsp.Session(tmp, workspace=wdir)
                uri = "file://" + os.path.join(wdir, "main.st")
                s_.open(uri, main_text, 1)
                rid = s_.tokens("file://" + os.path.join(wdir, "library.st"))
                resp, before = s_.wait_response(rid, 20.0)
                s_.shutdown(5.0)
                s_.kill()
                res.evaluations += 1
                res.count("lsp-workspace:" + name)
                case = {"text": lib, "encoding": name, "cmd": "lsp-workspace", "kind": "workspace", "main": main_text}
                if resp in (None, "timeout"):
                    if resp == "timeout" and s_.p.poll() is None:
                        res.inconclusive.append({"why": "lsp watchdog", "case": case})
                    else:
                        res.violation("crash", "crash:lsp-workspace", s_.stderr[-300:].decode("utf-8", "replace"), case)
                    continue
                pubs = [m for m in before if m.get("method") == "textDocument/publishDiagnostics" and m["params"]["uri"] == uri]
                diags = sorted((d_.get("code"), d_["range"]["start"]["line"], d_["range"]["start"]["character"])
                               for p_ in pubs[-1:] for d_ in p_["params"]["diagnostics"])
                toks = resp.get("result")
                obs = (diags, None if toks is None else len(toks.get("data", [])))
                if ref is None:
                    ref = (name, obs)
                elif obs != ref[1]:
                    res.violation("encoding-dependent", "lsp-workspace:%s" % name, {ref[0]: ref[1], name: obs}, case)
                shutil.rmtree(wdir, ignore_errors=True)
            if ref is not None:
                res.distinct.add(core.key_of("ws", i))
        # ---- (2) exhaustive byte sweep: 256 byte values x 4 sites
        sites = {
            "comment": b"PROGRAM p\nVAR x : INT; END_VAR\n(* a @ b *) x := undeclared;\nEND_PROGRAM\n",
            "string": b"PROGRAM p\nVAR s : STRING := 'a@b'; x : INT; END_VAR\nx := undeclared;\nEND_PROGRAM\n",
            "between": b"PROGRAM p\nVAR x : INT; END_VAR\nx @ := undeclared;\nEND_PROGRAM\n",
            "identifier": b"PROGRAM p\nVAR x : INT; END_VAR\nx := unde@clared;\nEND_PROGRAM\n",
        }
        idx = 0
        for site, tmpl in sites.items():
            for b in range(256):
                idx += 1
                if idx % nshards != shard_i:
                    continue
                data = tmpl.replace(b"@", bytes([b]))
                path = os.path.join(tmp, "b_%s_%d.st" % (site, b))
                open(path, "wb").write(data)
                text = ref_decode(data)
                for cmd in ("check", "tokenize"):
                    r = core.run_cli([cmd, path], tmp)
                    res.evaluations += 1
                    res.count("sweep:" + site)
                    case = {"hex": data.hex(), "site": site, "byte": b, "cmd": cmd}
                    if r["watchdog"]:
                        res.inconclusive.append({"why": "cli watchdog", "case": case})
                        continue
                    if crashed(r):
                        pm = core.cli_panic(r["err"])
                        res.violation("crash", "crash:%s" % (pm[0] + ":" + pm[1][:40] if pm else r["rc"]), r["err"][-300:], case)
                        continue
                    if cmd == "check":
                        bad = positions_inside(r, text)
                        if bad:
                            res.violation("position-outside-text", "sweep-outside:%s:%s" % (site, bad[0]), {"position": bad}, case)
                            continue
                        if r["rc"] == 0:
                            res.violation("accepted-faulty", "sweep-accepted:%s" % site, {"byte": b}, case)
                            continue
                        # inside a comment or a string a byte must not change what is reported about the rest
                        if site in ("comment", "string") and b not in (0x27, 0x2A, 0x29, 0x0A, 0x0D, 0x0C, 0x85):
                            diags = core.parse_cli_diags(r["err"])
                            exp_line = 3
                            if not any(c[0] == "P0015" and c[3] == exp_line for c in diags) and \
                                    not any(c[0] in ("P0031", "P0002") for c in diags):
                                res.violation("wrong-position", "sweep-p0015:%s" % site, {"diags": diags[:3], "byte": b}, case)
                                continue
                    res.distinct.add(core.key_of("sweep", site, b, cmd))
                os.unlink(path)
        # ---- (3) random binary files
        for i in range(shard_i, payload["n_binary"], nshards):
            rng = core.rng_for(payload["seed"], "c14bin", i)
            data = bytes(rng.randrange(256) for _ in range(rng.choice([1, 2, 3, 10, 100, 1000, 5000])))
            if i % 3 == 0:
                data = rng.choice([b"\xff\xfe", b"\xfe\xff", b"\xef\xbb\xbf"]) + data
            path = os.path.join(tmp, "r%d.st" % i)
            open(path, "wb").write(data)
            text = ref_decode(data)
            for cmd in ("check", "tokenize", "echo"):
                r = core.run_cli([cmd, path], tmp)
                res.evaluations += 1
                res.count("binary")
                case = {"hex": data[:3000].hex(), "cmd": cmd}
                if r["watchdog"]:
                    res.inconclusive.append({"why": "cli watchdog", "case": case})
                elif crashed(r):
                    pm = core.cli_panic(r["err"])
                    res.violation("crash", "crash:%s" % (pm[0] + ":" + pm[1][:40] if pm else r["rc"]), r["err"][-300:], case)
                elif cmd == "check" and positions_inside(r, text):
                    res.violation("position-outside-text", "binary-outside", {"position": positions_inside(r, text)}, case)
                else:
                    res.distinct.add(core.key_of("bin", i, cmd))
            os.unlink(path)
    finally:
        shutil.rmtree(tmp, ignore_errors=True)
    return res.to_dict()


REL_BIN = os.path.join(core.TARGET, "plcrel", "release", "ironplcc")


def memcheck_shard(shard_i, nshards, payload):
    """valgrind memcheck on a release build of the binary for random binary and re-encoded files: an error report
    (uninitialised read, invalid access) makes valgrind exit 99."""
    import subprocess
    res = core.Result()
    tmp = core.worker_tmpdir("c14vg")
    try:
        for i in range(shard_i, payload["n_memcheck"], nshards):
            rng = core.rng_for(payload["seed"], "c14vg", i)
            if i % 2:
                data = bytes(rng.randrange(256) for _ in range(rng.choice([3, 50, 700, 4000])))
                if i % 4 == 1:
                    data = rng.choice([b"\xff\xfe", b"\xfe\xff", b"\xef\xbb\xbf"]) + data
            else:
                text = decorate(vgen.render_unit(vgen.VGen(rng).unit(n_types=1, n_fbs=1, n_programs=1)), rng, True)
                data = ENCODINGS[i // 2 % 4][1](text)
            path = os.path.join(tmp, "m%d.st" % i)
            open(path, "wb").write(data)
            for cmd in ("check", "tokenize"):
                env = dict(os.environ, TMPDIR=tmp)
                try:
                    p = subprocess.run(["valgrind", "--error-exitcode=99", "--quiet", REL_BIN, cmd, path], env=env,
                                       stdout=subprocess.DEVNULL, stderr=subprocess.PIPE, timeout=300)
                except subprocess.TimeoutExpired:
                    res.inconclusive.append({"why": "valgrind watchdog", "case": {"hex": data[:2000].hex()}})
                    continue
                res.evaluations += 1
                res.count("memcheck")
                if p.returncode == 99:
                    res.violation("sanitizer", "memcheck:error", p.stderr.decode("utf-8", "replace")[-600:],
                                  {"hex": data[:3000].hex(), "cmd": cmd})
                elif p.returncode in (101,) or p.returncode < 0:
                    res.violation("crash", "memcheck:crash:%s" % p.returncode, p.stderr.decode("utf-8", "replace")[-300:],
                                  {"hex": data[:3000].hex(), "cmd": cmd})
                else:
                    res.distinct.add(core.key_of("vg", i, cmd))
            os.unlink(path)
    finally:
        shutil.rmtree(tmp, ignore_errors=True)
    return res.to_dict()


def build_release():
    try:
        core._run_build(["cargo", "build", "--offline", "-q", "--release", "-p", "ironplcc", "--bin", "ironplcc"], core.COMPILER,
                        os.path.join(core.TARGET, "plcrel"), "ironplcc (release)")
    except core.MachineryError:
        return False
    return os.path.exists(REL_BIN)


def run(tier, seed):
    core.build_plc()
    avoid = sorted({a for f in core.load_findings("C02") if f.get("status") == "open" for a in f.get("atoms", [])})
    payload = {"seed": seed, "avoid": avoid, "n_docs": 96 if tier == "quick" else 3000,
               "n_binary": 160 if tier == "quick" else 50000, "n_workspace": 16 if tier == "quick" else 400}
    parts = core.run_sharded(shard, payload)
    memcheck = "not run (quick tier)"
    if tier == "thorough":
        if build_release():
            payload["n_memcheck"] = 240
            parts += core.run_sharded(memcheck_shard, payload)
            memcheck = "240 files x 2 commands under valgrind memcheck (release build)"
        else:
            memcheck = "release build failed: not run"
    res = core.Result.merge(parts)
    extra = {
        "rule": "generated valid / semantically faulty / lexically faulty programs with non-ASCII characters in comments "
                "(before code on the same line) and strings, LF and CRLF, stored in UTF-8, UTF-8+BOM, UTF-16LE+BOM, "
                "UTF-16BE+BOM and Windows-1252 (when encodable and not valid UTF-8): `check` (exit, codes, line:col) and "
                "`tokenize` (token type, line, column) must agree; every byte 0x00-0xFF at 4 sites (exhaustive, 1024 "
                "files x 2 commands); random binary files with and without BOMs; distinct = documents whose encodings "
                "agreed + sweep cells + binary files that produced an in-range verdict",
        "exhaustive": False,
        "assumptions": ["reference decoder: BOM sniff, strict UTF-8, else WHATWG windows-1252",
                        "positions are bounded by the reference-decoded text (line count and line length + 1)"],
        "min_evaluations": 1000,
        "coverage": {"byte_sweep_exhaustive": True, "memcheck": memcheck},
    }
    return res, extra


def replay(case):
    core.build_plc()
    c = case["case"]
    tmp = core.worker_tmpdir("c14r")
    out = []
    if "text" in c:
        for name, enc in ENCODINGS:
            if name not in c.get("encodings", [c.get("encoding")]):
                continue
            try:
                data = enc(c["text"])
            except UnicodeEncodeError:
                continue
            p = os.path.join(tmp, "f.st")
            open(p, "wb").write(data)
            r = core.run_cli(["check", p], tmp)
            out.append(summary(r))
    else:
        p = os.path.join(tmp, "f.st")
        open(p, "wb").write(bytes.fromhex(c["hex"]))
        r = core.run_cli([c["cmd"], p], tmp)
        shutil.rmtree(tmp, ignore_errors=True)
        return not crashed(r), "rc=%s" % r["rc"]
    shutil.rmtree(tmp, ignore_errors=True)
    return all(o == out[0] for o in out), str(out)[:400]
