"""Spelling layer: token list -> text.  canonical(): keywords as given (upper case), identifiers as
given, one blank between tokens.  respell(): random letter case per keyword / identifier occurrence,
random trivia at every soft boundary, optional ';' after END_IF."""

TRIVIA = [" ", "  ", "\t", "\n", "\r\n", " \n ", "\n\n", " (* c *) ", "(* c *)", " (* multi\nline *) ",
          "(* ( *)", " (* ) *) ", "(* * *)", " (* a (* b *) ", "(*x*)(*y*)", " (* café ü *) ", "\n\t(* - *)\n",
          " (**) ", "\t \t", "(***)", " (* x **) ", "(* a * b *)", " (*) x *) ",
          " (* mehr\nzeilig ü€ *) ", "   (* ü\r\n é日本 *) ", "\n  (* a\n\n  b é *)",
          # line comments (to the end of the line; the line break belongs to them)
          " // c\n", " // é ü\r\n", "\n// x (* y\n", " //\n", "\t// a // b\n  ",
          # braces are ordinary comment text; and comments whose last line is shorter than their first
          " (* { *) ", "(* } *)", " (* {x} *) ", " (* äöüäöüäöü\n*) ", "(* 日本日本日本\r\n *)"]
TRIVIA_FF = ["\f", " \f "]


def canonical(tokens):
    out = []
    first = True
    for text, kind, tight in tokens:
        if kind == "endif;":
            text = ";"
        if not first and not tight:
            out.append(" ")
        out.append(text)
        first = False
    return "".join(out)


def recase(rng, s):
    m = rng.randrange(4)
    if m == 0:
        return s.upper()
    if m == 1:
        return s.lower()
    if m == 2:
        return s.capitalize()
    return "".join(c.upper() if rng.random() < 0.5 else c.lower() for c in s)


def respell(tokens, rng, kwcase=False, tkwcase=False, idcase=False, trivia=False, endif=False, ff=False,
            offsets=None):
    """Returns the text.  Dimensions can be switched on separately so that a failure names its
    dimension."""
    out = []
    first = True
    pool = TRIVIA + (TRIVIA_FF if ff else [])
    prev_text, prev_kind = "", ""
    for text, kind, tight in tokens:
        if kind == "endif;":
            # the optional semicolon after END_IF
            if endif and rng.random() < 0.5:
                continue
            text = ";"
            kind = "op"
        if kind == "kw" and kwcase:
            text = recase(rng, text)
        elif kind == "tkw" and tkwcase:
            text = recase(rng, text)
        elif kind == "id" and idcase:
            text = recase(rng, text)
        if not first and not tight:
            if trivia:
                if rng.random() < 0.2 and may_touch(prev_text, prev_kind, text, kind):
                    pass        # no trivia at all: white space next to punctuation is optional
                else:
                    out.append(pool[rng.randrange(len(pool))])
            else:
                out.append(" ")
        out.append(text)
        prev_text, prev_kind = text, kind
        first = False
    return "".join(out)


# pairs of punctuation that would read as another token when written without white space between them
GLUED = {"(*", "*)", "//", "**", ":=", "<=", "<>", ">=", "=>", "..", "...", "(**", "**)"}


def may_touch(a, akind, b, bkind):
    """True when token b may directly follow token a: one of them is punctuation and the two do not
    run into one another (another token, a comment opener, a number with a point)."""
    if not a or not b:
        return False
    pa = akind == "op" and not (a[-1].isalnum() or a[-1] in "_'\"")
    pb = bkind == "op" and not (b[0].isalnum() or b[0] in "_'\"")
    if not (pa or pb):
        return False
    if a[-1] + b[0] in GLUED or a[-2:] + b[0] in GLUED or a[-1] + b[:2] in GLUED:
        return False
    if (a[-1].isdigit() and b[0] == ".") or (a[-1] == "." and b[0].isdigit()):
        return False
    if a[-1] in "+-" and b[0] in "+-":
        return False
    if a[-1] in "+-" and b[0].isdigit():
        # signs that belong to a literal are marked tight by the generator and never get here; what gets here is an
        # operator of an expression in front of a number: '- 2' and '-2', 'a - 2' and 'a -2' are the same expression
        return akind == "op" and bkind == "lit"
    if a[-1] == "#" or b[0] == "#" or a[-1] == "%" or b[0] == "%":
        return False
    return True


OSCAT_OPEN = "(*@KEY@:DESCRIPTION*)"
OSCAT_CLOSE = "(*@KEY@:END_DESCRIPTION*)"
OSCAT_TEXTS = ["version 1.0\t1. jan. 2000\nfirst unit of the export", "it's the block's description: 100% free text ?",
               "x := (1 + ;\nEND_TYPE", "caf\u00e9 \u00fc\u20ac \U0001F642 units", "", " ", "a *) b", "mentions (*@KEY@:DESCRIPTION*) itself"]


def with_oscat(tokens, starts, rng):
    """The token list with OSCAT description blocks in front of some top-level declarations (the way OSCAT exports
    look): the first block of the file holds free text, which the preprocessor blanks; later blocks are empty."""
    if not starts:
        return tokens
    n = min(len(starts), rng.randint(1, 3))
    where = sorted(rng.sample(starts, n))
    out = []
    rank = 0
    for i, t in enumerate(tokens):
        if i in where:
            body = rng.choice(OSCAT_TEXTS[:6]) if rank == 0 else rng.choice(["", "\n", " "])
            sep = rng.choice(["\n", " ", ""])
            out.append((OSCAT_OPEN + sep + body + sep + OSCAT_CLOSE, "op", False))
            rank += 1
        out.append(t)
    return out
