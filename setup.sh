#!/bin/bash
# Offline warm build of the probe and of the hook-enabled ironplcc binary.
set -e
export PATH="$HOME/.cargo/bin:$PATH"
cd "$(dirname "$0")"
/usr/bin/python3 - <<'PY'
import sys
sys.path.insert(0, "mon")
import core
core.build_probe()
core.build_plc()
print("setup ok")
PY
