"""Observed library dump (JSON produced by the probe from `{:?}`) -> normal form (see gen.py).

Representation choices of the dsl are folded away here; *content* is kept.  Anything this module
does not understand raises NormError (reported as a harness problem, never as a violation)."""
import re


class NormError(Exception):
    pass


def tag(v):
    if isinstance(v, dict):
        return v.get("_")
    return None


def args(v):
    return v["#"]


def opt(v):
    if v == "None":
        return None
    if tag(v) == "Some":
        return args(v)[0]
    raise NormError("not an Option: %r" % (v,))


def ident(v):
    if not isinstance(v, str):
        raise NormError("not an identifier: %r" % (v,))
    return v.lower()


def type_(v):
    if tag(v) != "Type":
        raise NormError("not a Type: %r" % (v,))
    return ident(v["name"])


def elem_type(v):
    # ElementaryTypeName debug: BOOL, TimeOfDay, DateAndTime ...
    m = {"TimeOfDay": "time_of_day", "DateAndTime": "date_and_time"}
    return m.get(v, v.lower())


def integer(v):
    if tag(v) != "Integer":
        raise NormError("not an Integer: %r" % (v,))
    return int(v["value"])


def signed(v):
    if tag(v) != "SignedInteger":
        raise NormError("not a SignedInteger: %r" % (v,))
    n = integer(v["value"])
    return -n if v["is_neg"] == "true" else n


def dtype(v):
    o = opt(v)
    return elem_type(o) if o is not None else None


def chars(v):
    return "".join(c["c"] for c in v)


TIME_RE = re.compile(r"^(\d+):(\d+):(\d+)\.(\d+)$")
DATE_RE = re.compile(r"^(-?\d+)-(\d+)-(\d+)$")
DT_RE = re.compile(r"^(-?\d+)-(\d+)-(\d+) (\d+):(\d+):(\d+)\.(\d+)$")


def frac_us(f):
    f = (f + "000000")[:6]
    return int(f)


def duration_ns(v):
    if tag(v) != "DurationLiteral":
        raise NormError("not a DurationLiteral")
    d = v["interval"]
    return int(d["seconds"]) * 10**9 + int(d["nanoseconds"])


def constant(v):
    t = tag(v)
    a = args(v)[0]
    if t == "IntegerLiteral":
        return ["int", signed(a["value"]), dtype(a["data_type"])]
    if t == "RealLiteral":
        return ["real", repr(float(a["value"])), dtype(a["data_type"])]
    if t == "Boolean":
        return ["bool", a["value"] == "True"]
    if t == "CharacterString":
        return ["str", chars(a["value"])]
    if t == "Duration":
        return ["dur", duration_ns(a)]
    if t == "TimeOfDay":
        m = TIME_RE.match(a["value"])
        if not m:
            raise NormError("time %r" % a["value"])
        return ["tod", int(m.group(1)), int(m.group(2)), int(m.group(3)), frac_us(m.group(4))]
    if t == "Date":
        m = DATE_RE.match(a["value"])
        if not m:
            raise NormError("date %r" % a["value"])
        return ["date", int(m.group(1)), int(m.group(2)), int(m.group(3))]
    if t == "DateAndTime":
        m = DT_RE.match(a["value"])
        if not m:
            raise NormError("dt %r" % a["value"])
        g = m.groups()
        return ["dt", int(g[0]), int(g[1]), int(g[2]), int(g[3]), int(g[4]), int(g[5]), frac_us(g[6])]
    if t == "BitStringLiteral":
        return ["bits", integer(a["value"]), dtype(a["data_type"])]
    raise NormError("constant kind %r" % t)


def enumval(v):
    if tag(v) != "EnumeratedValue":
        raise NormError("not an EnumeratedValue: %r" % (v,))
    tn = opt(v["type_name"])
    return ["enumval", type_(tn) if tn is not None else None, ident(v["value"])]


def subrange(v):
    return [signed(v["start"]), signed(v["end"])]


# ---------------------------------------------------------------- expressions

ADDRS = [None]


def addr(a):
    """AddressAssignment -> ["direct", location, size, [components]]; the components come from the
    probe's visitor list (the Debug impl of AddressAssignment omits them), matched by print order."""
    lst = ADDRS[0]
    k = a.get("k")
    comps = None
    if lst is not None and k is not None and k < len(lst):
        if lst[k][0] != a["location"] or lst[k][1] != a["size"]:
            raise NormError("address list out of step with the dump")
        comps = list(lst[k][2])
    return ["direct", a["location"], a["size"], comps]


def symvar(v):
    t = tag(v)
    a = args(v)[0]
    if t == "Named":
        return ["name", ident(a["name"])]
    if t == "Array":
        return ["index", symvar(a["subscripted_variable"]), [expr(e) for e in a["subscripts"]]]
    if t == "Structured":
        return ["field", symvar(a["record"]), ident(a["field"])]
    raise NormError("symbolic variable %r" % t)


def variable(v):
    t = tag(v)
    a = args(v)[0]
    if t == "Direct":
        return addr(a)
    if t == "Symbolic":
        return symvar(a)
    raise NormError("variable %r" % t)


def param(v):
    t = tag(v)
    a = args(v)[0]
    if t == "PositionalInput":
        return ["pos", expr(a["expr"])]
    if t == "NamedInput":
        return ["named", ident(a["name"]), expr(a["expr"])]
    if t == "Output":
        return ["out", a["not"] == "true", ident(a["src"]), variable(a["tgt"])]
    raise NormError("param %r" % t)


def fold_neg(e):
    """-5 is both `unary minus applied to 5` and `the literal -5` in Annex B: one normal form."""
    if e[0] == "un" and e[1] == "Neg" and e[2][0] in ("int", "real") and e[2][2] is None:
        c = e[2]
        if c[0] == "int" and c[1] >= 0:
            return ["int", -c[1], None]
        if c[0] == "real" and not c[1].startswith("-"):
            return ["real", repr(-float(c[1])), None]
    return e


def expr(v):
    t = tag(v)
    a = args(v)[0]
    if t == "Compare":
        return ["cmp", a["op"], expr(a["left"]), expr(a["right"])]
    if t == "BinaryOp":
        return ["bin", a["op"], expr(a["left"]), expr(a["right"])]
    if t == "UnaryOp":
        return fold_neg(["un", a["op"], expr(a["term"])])
    if t == "Expression":
        return expr(a)
    if t == "Const":
        return constant(a)
    if t == "EnumeratedValue":
        return enumval(a)
    if t == "Variable":
        return variable(a)
    if t == "Function":
        return ["call", ident(a["name"]), [param(p) for p in a["param_assignment"]]]
    if t == "LateBound":
        return ["name", ident(a["name"])]
    raise NormError("expr %r" % t)


# ---------------------------------------------------------------- statements

def stmts(vs):
    return [stmt(s) for s in vs]


def stmt(v):
    if v == "Return":
        return ["return"]
    if v == "Exit":
        return ["exit"]
    t = tag(v)
    a = args(v)[0]
    if t == "Assignment":
        return ["assign", variable(a["target"]), expr(a["value"])]
    if t == "FbCall":
        return ["fbcall", ident(a["var_name"]), [param(p) for p in a["params"]]]
    if t == "If":
        return ["if", expr(a["expr"]), stmts(a["body"]),
                [[expr(e["expr"]), stmts(e["body"])] for e in a["else_ifs"]], stmts(a["else_body"])]
    if t == "Case":
        groups = []
        for g in a["statement_groups"]:
            sels = []
            for s in g["selectors"]:
                st = tag(s)
                sa = args(s)[0]
                if st == "Subrange":
                    sels.append(["range"] + subrange(sa))
                elif st == "SignedInteger":
                    sels.append(["int", signed(sa)])
                elif st == "EnumeratedValue":
                    sels.append(enumval(sa))
                else:
                    raise NormError("case selector %r" % st)
            groups.append([sels, stmts(g["statements"])])
        return ["case", expr(a["selector"]), groups, stmts(a["else_body"])]
    if t == "For":
        step = opt(a["step"])
        return ["for", ident(a["control"]), expr(a["from"]), expr(a["to"]), expr(step) if step is not None else None,
                stmts(a["body"])]
    if t == "While":
        return ["while", expr(a["condition"]), stmts(a["body"])]
    if t == "Repeat":
        return ["repeat", stmts(a["body"]), expr(a["until"])]
    raise NormError("stmt %r" % t)


# ---------------------------------------------------------------- initialisers

def array_elem(v):
    t = tag(v)
    a = args(v)[0]
    if t == "Constant":
        return constant(a)
    if t == "EnumValue":
        return enumval(a)
    if t == "Repeated":
        init = a["init"]
        inner = opt(init)
        return ["rep", integer(a["size"]), array_elem(inner) if inner is not None else None]
    raise NormError("array element %r" % t)


def struct_elem_init(v):
    init = v["init"]
    t = tag(init)
    a = args(init)[0]
    if t == "Constant":
        val = constant(a)
    elif t == "EnumeratedValue":
        val = enumval(a)
    elif t == "Array":
        val = ["arrayinit", [array_elem(e) for e in a]]
    elif t == "Structure":
        val = ["struct", [struct_elem_init(e) for e in a]]
    else:
        raise NormError("struct element init %r" % t)
    return [ident(v["name"]), val]


def array_spec(v):
    t = tag(v)
    a = args(v)[0]
    if t == "Subranges":
        return [subrange(r) for r in a["ranges"]], type_(a["type_name"])
    raise NormError("array spec %r" % t)


def subrange_spec(v, default=None):
    t = tag(v)
    a = args(v)[0]
    if t == "Specification":
        lo, hi = subrange(a["subrange"])
        return ["subrange", elem_type(a["type_name"]), lo, hi, default]
    if t == "Type":
        return ["t", type_(a), None]
    raise NormError("subrange spec %r" % t)


def initializer(v):
    t = tag(v)
    a = args(v)[0] if "#" in v else None
    if t == "None":
        return ["none"]
    if t == "Simple":
        c = opt(a["initial_value"])
        return ["t", type_(a["type_name"]), constant(c) if c is not None else None]
    if t == "LateResolvedType":
        return ["t", type_(a), None]
    if t == "EnumeratedType":
        c = opt(a["initial_value"])
        return ["t", type_(a["type_name"]), enumval(c) if c is not None else None]
    if t == "FunctionBlock":
        items = [struct_elem_init(e) for e in a["init"]]
        return ["t", type_(a["type_name"]), ["struct", items] if items else None]
    if t == "Structure":
        items = [struct_elem_init(e) for e in a["elements_init"]]
        return ["t", type_(a["type_name"]), ["struct", items] if items else None]
    if t == "EnumeratedValues":
        c = opt(a["initial_value"])
        return ["enumvals", [enumval(x) for x in a["values"]], enumval(c) if c is not None else None]
    if t == "Subrange":
        return subrange_spec(a)
    if t == "Array":
        ranges, et = array_spec(a["spec"])
        return ["array", ranges, et, [array_elem(e) for e in a["initial_values"]]]
    if t == "String":
        ln = opt(a["length"])
        iv = opt(a["initial_value"])
        return ["string", a["width"], integer(ln) if ln is not None else None, chars(iv) if iv is not None else None]
    raise NormError("initializer %r" % t)


def var_identifier(v):
    t = tag(v)
    a = args(v)[0]
    if t == "Symbol":
        return ident(a)
    if t == "Direct":
        n = opt(a["name"])
        return ["at", ident(n) if n is not None else None] + addr(a["address_assignment"])[1:]
    raise NormError("variable identifier %r" % t)


def var_decl(v):
    return ["var", var_identifier(v["identifier"]), v["var_type"], v["qualifier"], initializer(v["initializer"])]


def edge_decl(v):
    return ["edge", ident(v["identifier"]), v["direction"], v["qualifier"]]


# ---------------------------------------------------------------- declarations

def data_type(v):
    t = tag(v)
    a = args(v)[0]
    if t == "Enumeration":
        si = a["spec_init"]
        d = opt(si["default"])
        d = enumval(d) if d is not None else None
        sp = si["spec"]
        if tag(sp) == "Values":
            return ["type", type_(a["type_name"]), ["enum", [enumval(x) for x in args(sp)[0]["values"]], d]]
        return ["type", type_(a["type_name"]), ["enum_alias", type_(args(sp)[0]), d]]
    if t == "Subrange":
        d = opt(a["default"])
        sp = subrange_spec(a["spec"], signed(d) if d is not None else None)
        return ["type", type_(a["type_name"]), sp]
    if t == "Simple":
        i = initializer(a["spec_and_init"])
        if i[0] != "t":
            raise NormError("simple declaration with %r" % i[0])
        return ["type", type_(a["type_name"]), ["simple", i[1], i[2]]]
    if t == "Array":
        ranges, et = array_spec(a["spec"])
        return ["type", type_(a["type_name"]), ["array", ranges, et, [array_elem(e) for e in a["init"]]]]
    if t == "Structure":
        return ["type", type_(a["type_name"]),
                ["struct", [[ident(e["name"]), struct_member(e["init"])] for e in a["elements"]]]]
    if t == "StructureInitialization":
        return ["type", type_(a["type_name"]), ["struct_init", None,
                                                [struct_elem_init(e) for e in a["elements_init"]]]]
    if t == "String":
        iv = opt(a["init"])
        return ["type", type_(a["type_name"]), ["string", a["width"], integer(a["length"]),
                                                iv["s"] if iv is not None else None]]
    if t == "LateBound":
        return ["type", type_(a["data_type_name"]), ["alias", type_(a["base_type_name"])]]
    raise NormError("data type %r" % t)


def struct_member(v):
    i = initializer(v)
    if i[0] == "subrange" and len(i) == 5:
        return i
    return i


def body(v):
    if v == "Empty":
        return ["empty"]
    t = tag(v)
    a = args(v)[0]
    if t == "Statements":
        return ["stmts", stmts(a["body"])]
    if t == "Sfc":
        return ["sfc", [network(n) for n in a["networks"]]]
    raise NormError("body %r" % t)


def assoc(v):
    q = opt(v["qualifier"])
    qnf = None
    if q is not None:
        if isinstance(q, str):
            qnf = [q, None]
        else:
            tm = args(q)[0]
            tt = tag(tm)
            ta = args(tm)[0]
            if tt == "Duration":
                qnf = [tag(q), ["dur", duration_ns(ta)]]
            elif tt == "VariableName":
                qnf = [tag(q), ["name", ident(ta)]]
            else:
                raise NormError("action time %r" % tt)
    return ["assoc", ident(v["name"]), qnf, [ident(i) for i in v["indicators"]]]


def step(v):
    return ["step", ident(v["name"]), [assoc(x) for x in v["action_associations"]]]


def network(v):
    elems = []
    for e in v["elements"]:
        t = tag(e)
        a = args(e)[0]
        if t == "Step":
            elems.append(step(a))
        elif t == "Transition":
            n = opt(a["name"])
            p = opt(a["priority"])
            elems.append(["transition", ident(n) if n is not None else None, int(p) if p is not None else None,
                          [ident(x) for x in a["from"]], [ident(x) for x in a["to"]], expr(a["condition"])])
        elif t == "Action":
            elems.append(["action", ident(a["name"]), body(a["body"])])
        else:
            raise NormError("sfc element %r" % t)
    return [step(v["initial_step"]), elems]


def gref(a):
    r = opt(a["resource_name"])
    s = opt(a["structure_element_name"])
    return ["gref", ident(r) if r is not None else None, ident(a["global_var_name"]),
            ident(s) if s is not None else None]


def prog_conf(v):
    sources, sinks = [], []
    for s in v["sources"]:
        src = s["src"]
        t = tag(src)
        a = args(src)[0]
        if t == "Constant":
            val = constant(a)
        elif t == "EnumeratedValue":
            ev = enumval(a)
            val = ["ident", ev[2]] if ev[1] is None else ev
        elif t == "GlobalVarReference":
            g = gref(a)
            val = ["ident", g[2]] if g[1] is None and g[3] is None else g
        elif t == "DirectVariable":
            val = addr(a)
        else:
            raise NormError("source %r" % t)
        sources.append(["source", symvar(s["dst"]), val])
    for s in v["sinks"]:
        dst = s["dst"]
        t = tag(dst)
        a = args(dst)[0]
        if t == "GlobalVarReference":
            val = gref(a)
        elif t == "DirectVariable":
            val = addr(a)
        else:
            raise NormError("sink %r" % t)
        sinks.append(["sink", symvar(s["src"]), val])
    st = opt(v["storage"])
    tn = opt(v["task_name"])
    return ["progconf", ident(v["name"]), st, ident(tn) if tn is not None else None, ident(v["type_name"]),
            [["fbtask", ident(f["fb_name"]), ident(f["task_name"])] for f in v["fb_tasks"]], sources, sinks]


def resource(v):
    tasks = []
    for t in v["tasks"]:
        iv = opt(t["interval"])
        tasks.append(["task", ident(t["name"]), int(t["priority"]), ["dur", duration_ns(iv)] if iv is not None else None])
    return ["resource", ident(v["name"]), ident(v["resource"]), [var_decl(x) for x in v["global_vars"]], tasks,
            [prog_conf(p) for p in v["programs"]]]


def declaration(v):
    t = tag(v)
    a = args(v)[0]
    if t == "DataTypeDeclaration":
        return data_type(a)
    if t == "FunctionDeclaration":
        return ["function", ident(a["name"]), type_(a["return_type"]), [var_decl(x) for x in a["variables"]],
                [edge_decl(x) for x in a["edge_variables"]], stmts(a["body"])]
    if t == "FunctionBlockDeclaration":
        return ["fb", ident(a["name"]), [var_decl(x) for x in a["variables"]],
                [edge_decl(x) for x in a["edge_variables"]], body(a["body"])]
    if t == "ProgramDeclaration":
        acc = []
        for x in a["access_variables"]:
            d = opt(x["direction"])
            acc.append(["access", ident(x["access_name"]), symvar(x["symbolic_variable"]), type_(x["type_name"]), d])
        return ["program", ident(a["name"]), [var_decl(x) for x in a["variables"]], [], acc, body(a["body"])]
    if t == "ConfigurationDeclaration":
        fbi = []
        for f in a["fb_inits"]:
            # the instance path is fb_path (+ fb_name when the parser fills it in)
            path = [ident(x) for x in f["fb_path"]] + ([ident(f["fb_name"])] if f["fb_name"] != "" else [])
            fbi.append(["fbinit", ident(f["resource_name"]), ident(f["program_name"]), path, type_(f["type_name"]),
                        [struct_elem_init(e) for e in f["initializer"]]])
        loc = []
        for f in a["located_var_inits"]:
            ad = opt(f["address"])
            loc.append(["locinit", ident(f["resource_name"]), ident(f["program_name"]),
                        [ident(x) for x in f["fb_path"]],
                        addr(ad)[1:] if ad is not None else None, initializer(f["initializer"])])
        return ["config", ident(a["name"]), [var_decl(x) for x in a["global_var"]],
                [resource(r) for r in a["resource_decl"]], fbi, loc]
    raise NormError("declaration %r" % t)


def library(dump, addrs=None):
    if tag(dump) != "Library":
        raise NormError("not a library")
    ADDRS[0] = addrs
    return canon([declaration(d) for d in dump["elements"]])


# ---------------------------------------------------------------- comparison

def canon(nf):
    """Canonicalisations applied to BOTH sides: -5 folding; a string type without length and
    initial value is the same thing as a reference to the type STRING / WSTRING."""
    if isinstance(nf, list):
        out = [canon(x) for x in nf]
        if out and out[0] == "un":
            out = fold_neg(out)
        if len(out) == 4 and out[0] == "string" and out[2] is None and out[3] is None:
            out = ["t", "string" if out[1] == "String" else "wstring", None]
        if out == ["stmts", []]:
            out = ["empty"]
        return out
    return nf


def normalize_expected(nf):
    return canon(nf)


TAGS = set("""bin cmp un name field index call pos named out int real bool str dur tod date dt bits direct enumval
assign fbcall if case for while repeat return exit range type enum enum_alias subrange simple alias array struct
struct_init string function fb program config var edge t enumvals none at rep arrayinit stmts sfc empty step
transition action assoc resource task progconf fbtask source sink gref ident fbinit locinit access""".split())


def diff(exp, obs, path="lib"):
    """First difference between two NFs as (path, expected, observed) or None."""
    if type(exp) != type(obs):
        if isinstance(exp, (int, float)) and isinstance(obs, (int, float)) and not isinstance(exp, bool) \
                and not isinstance(obs, bool) and exp == obs:
            return None
        return (path, exp, obs)
    if isinstance(exp, list):
        head = exp[0] if exp and isinstance(exp[0], str) and exp[0] in TAGS else None
        for i in range(min(len(exp), len(obs))):
            p = "%s/%s[%d]" % (path, head, i) if head else "%s[%d]" % (path, i)
            d = diff(exp[i], obs[i], p)
            if d:
                return d
        if len(exp) != len(obs):
            return ("%s/len" % path, len(exp), len(obs))
        return None
    if exp != obs:
        return (path, exp, obs)
    return None
