import sys, json
sys.path.insert(0, '/verif/mon')
import core
p = core.Probe()
for line in sys.stdin.read().split("\n---\n"):
    text = line.strip()
    if not text: continue
    o = p.run({"op": "pipeline" if "-p" in sys.argv else "parse", "text": text, "dump": False})
    if "panic" in o: r = "PANIC " + o["panic"]["message"]
    elif "parse_ok" in o: r = json.dumps({k: o[k] for k in o if k not in ("events",)})
    elif o.get("ok"): r = "OK n=%d" % o["n_elements"]
    else:
        d = o["diag"]; r = "ERR %s @%d..%d %s" % (d["code"], d["primary"]["start"], d["primary"]["end"], d["primary"]["msg"][:150])
    print(text[:100].replace("\n", " "), "=>", r)
