"""Grammar-directed program generator.

Every construct is produced together with the *normal form* (NF) the parsed library is expected
to have, written from IEC 61131-3 Annex B (not from parser.rs): names are lower-cased, spans are
absent, parentheses are transparent, and the many dsl representations of "a type reference with
an optional initial value" collapse to one shape.  norm.py maps the observed dump to the same NF.

A program is a list of tokens (text, kind, tight): kind is 'kw' (keyword: any letter case),
'tkw' (keyword that ironplc matches textually: INTERVAL, PRIORITY, action qualifiers, T#/D# prefixes,
duration units), 'id' (identifier: any letter case per occurrence), 'lit', 'op'; tight means
"no trivia before this token" (inside one lexical unit such as INT#5, -5, 1..5, a.b, a[).
spell.py turns token lists into text.
"""

import re

KEYWORDS = set("""ACTION END_ACTION ARRAY OF AT CASE ELSE END_CASE CONSTANT CONFIGURATION END_CONFIGURATION EN ENO EXIT
FALSE F_EDGE FOR TO BY DO END_FOR FUNCTION END_FUNCTION FUNCTION_BLOCK END_FUNCTION_BLOCK IF THEN ELSIF END_IF
INITIAL_STEP END_STEP PROGRAM WITH END_PROGRAM R_EDGE READ_ONLY READ_WRITE REPEAT UNTIL END_REPEAT RESOURCE ON
END_RESOURCE RETAIN NON_RETAIN RETURN STEP STRUCT END_STRUCT TASK END_TASK TRANSITION FROM END_TRANSITION TRUE
TYPE END_TYPE VAR END_VAR VAR_INPUT VAR_OUTPUT VAR_IN_OUT VAR_TEMP VAR_EXTERNAL VAR_ACCESS VAR_CONFIG VAR_GLOBAL
WHILE END_WHILE BOOL SINT INT DINT LINT USINT UINT UDINT ULINT REAL LREAL TIME DATE TIME_OF_DAY TOD DATE_AND_TIME
DT STRING BYTE WORD DWORD LWORD WSTRING OR XOR AND MOD NOT""".split())

# identifiers that have a textual meaning somewhere in the grammar; never used as names
RESERVED_TEXT = set("N R S L D P SD DS SL P1 P0 INTERVAL PRIORITY T D E TON TOF TP CTU CTD CTUD SR RS R_TRIG F_TRIG "
                    "MS H M".split())

INT_TYPES = ["SINT", "INT", "DINT", "LINT", "USINT", "UINT", "UDINT", "ULINT"]
REAL_TYPES = ["REAL", "LREAL"]
BIT_TYPES = ["BYTE", "WORD", "DWORD", "LWORD"]
ELEM_TYPES = INT_TYPES + REAL_TYPES + BIT_TYPES + ["BOOL", "TIME", "DATE", "TOD", "DT", "TIME_OF_DAY",
                                                   "DATE_AND_TIME", "STRING", "WSTRING"]
TYPE_NF = {"TOD": "time_of_day", "DT": "date_and_time"}

BIN_OPS = [  # (token text, nf kind, nf op, precedence level)
    ("OR", "cmp", "Or", 1), ("XOR", "cmp", "Xor", 2), ("AND", "cmp", "And", 3), ("&", "cmp", "And", 3),
    ("=", "cmp", "Eq", 4), ("<>", "cmp", "Ne", 4),
    ("<", "cmp", "Lt", 5), (">", "cmp", "Gt", 5), ("<=", "cmp", "LtEq", 5), (">=", "cmp", "GtEq", 5),
    ("+", "bin", "Add", 6), ("-", "bin", "Sub", 6),
    ("*", "bin", "Mul", 7), ("/", "bin", "Div", 7), ("MOD", "bin", "Mod", 7),
    ("**", "bin", "Pow", 8),
]
OP_BY_NF = {(k, o): (t, lvl) for (t, k, o, lvl) in BIN_OPS if t != "&"}
UN_OPS = [("-", "Neg"), ("NOT", "Not")]


def tnf(t):
    return TYPE_NF.get(t.upper(), t.lower())


def K(s, tight=False):
    return (s, "kw", tight)


def TK(s, tight=False):
    return (s, "tkw", tight)


def I(s, tight=False):
    return (s, "id", tight)


def L(s, tight=False):
    return (s, "lit", tight)


def O(s, tight=False):
    return (s, "op", tight)


def type_tok(t, tight=False):
    return K(t, tight) if t.upper() in KEYWORDS else I(t, tight)


class Unavailable(Exception):
    """Every alternative of a production is on the avoid list."""


class Gen:
    def __init__(self, rng, avoid=(), depth=3):
        self.rng = rng
        self.avoid = set(avoid)
        self.atoms = set()
        self.depth = depth
        self.addrs = []        # expected address assignments in source order [loc, size, [components]]
        self.n = 0
        self.std_used = set()
        self.decl_starts = []  # token index at which every top-level declaration (or TYPE block) starts

    # ------------------------------------------------------------------ helpers
    def ok(self, atom):
        return atom not in self.avoid

    def atom(self, a):
        self.atoms.add(a)

    def pick(self, seq):
        return seq[self.rng.randrange(len(seq))]

    def chance(self, p):
        return self.rng.random() < p

    STD_NAMES = ["TON", "TOF", "TP", "SR", "RS", "CTU", "CTD", "CTUD", "R_TRIG", "F_TRIG", "ton", "Sr", "Ctu_1", "RTC"]

    def name(self, prefix="v"):
        if prefix in ("Fb", "T") and self.ok("name.like-standard-fb") and self.chance(0.06):
            # names of standard function blocks are ordinary identifiers: a library may declare them itself
            free = [n for n in self.STD_NAMES if n.lower() not in self.std_used]
            if free:
                nm = self.pick(free)
                self.std_used.add(nm.lower())
                self.atom("name.like-standard-fb")
                return nm
        self.n += 1
        stems = ["alpha", "Beta", "gamma_x", "Delta1", "e2e", "Foo", "bar_", "_q", "Motor", "valve", "cnt", "Lvl",
                 "Zone", "quiz", "JazzY", "wxyz", "Khj", "pdq"]
        return "%s%s%d" % (prefix, self.pick(stems), self.n)

    def choose(self, options):
        """options: list of (atom, weight); returns an atom not in avoid."""
        opts = [(a, w) for a, w in options if self.ok(a)]
        if not opts:
            raise Unavailable(options[0][0])
        total = sum(w for _, w in opts)
        x = self.rng.random() * total
        for a, w in opts:
            x -= w
            if x <= 0:
                return a
        return opts[-1][0]

    # ------------------------------------------------------------------ literals
    def int_text(self, lo=0, hi=1000):
        v = self.rng.randint(lo, hi)
        if hi >= 1000 and self.ok("lit.int.big") and self.chance(0.04):
            # beyond 32 and 64 bits (integer literals are kept in 128 bits)
            self.atom("lit.int.big")
            v = self.pick([2**32, 2**63, 2**64 - 1, 2**64, 2**64 + 1, 2**100, 2**127, 2**128 - 1, 10**19, 10**30])
        form = self.choose([("lit.int.dec", 6), ("lit.int.underscore", 1), ("lit.int.hex", 1), ("lit.int.oct", 1),
                            ("lit.int.bin", 1)])
        self.atom(form)
        if form == "lit.int.dec":
            return str(v), v
        if form == "lit.int.underscore":
            s = str(v)
            if len(s) > 1:
                k = self.rng.randrange(1, len(s))
                s = s[:k] + "_" + s[k:]
            return s, v
        if form == "lit.int.hex":
            return "16#" + self.us("%X" % v, "hex"), v
        if form == "lit.int.oct":
            return "8#" + self.us("%o" % v, "oct"), v
        return "2#" + self.us(bin(v)[2:], "bin"), v

    def us(self, digits, where, p=0.25):
        """Digit-group underscores (integer ::= digit {['_'] digit}): legal wherever the grammar says `integer`."""
        atom = "lit.underscore." + where
        if len(digits) < 2 or not self.ok(atom) or not self.chance(p):
            return digits
        self.atom(atom)
        out = digits[0]
        for ch in digits[1:]:
            if self.chance(0.4):
                out += "_"
            out += ch
        if "_" not in out:
            out = digits[0] + "_" + digits[1:]
        return out

    def dec_text(self, lo=0, hi=1000):
        v = self.rng.randint(lo, hi)
        return str(v), v

    def constant(self, ctx="init"):
        """A constant in an initial-value or expression position: (tokens, nf)."""
        kind = self.choose([("lit.int", 6), ("lit.int.typed", 1), ("lit.int.signed", 1), ("lit.real", 2),
                            ("lit.real.typed", 1), ("lit.real.signed", 1), ("lit.bool", 2), ("lit.bool.typed", 1),
                            ("lit.string", 1), ("lit.wstring", 1), ("lit.string.typed", 1),
                            ("lit.duration", 2), ("lit.tod", 1), ("lit.date", 1), ("lit.dt", 1),
                            ("lit.bits", 1)])
        if ctx == "expr" and kind in ("lit.int.signed", "lit.real.signed"):
            kind = "lit.int"
        self.atom(kind)
        r = self.rng
        if kind == "lit.int":
            s, v = self.int_text()
            return [L(s)], ["int", v, None]
        if kind == "lit.int.typed":
            t = self.pick(INT_TYPES)
            s, v = self.int_text()
            neg = self.ok("lit.int.typed.neg") and self.ok("int.negative") and self.chance(0.2) and \
                not s.startswith(("16#", "8#", "2#"))
            toks = [K(t), O("#", True)]
            if neg:
                toks.append(O("-", True))
                v = -v
            toks.append(L(s, True))
            return toks, ["int", v, t.lower()]
        if kind == "lit.int.signed":
            s, v = self.dec_text()
            sign = self.pick(["-", "+"] if self.ok("int.negative") else ["+"])
            if sign == "-":
                self.atom("int.negative")
            return [O(sign), L(s, True)], ["int", -v if sign == "-" else v, None]
        if kind in ("lit.real", "lit.real.typed", "lit.real.signed"):
            whole = r.randint(0, 999)
            frac = r.randint(0, 999)
            if self.chance(0.3):
                # round numbers: one or two significant digits, the shape people write (1.0E-7, 2.5e+3, 100.0)
                whole = self.pick([0, 1, 2, 3, 5, 9, 10, 100])
                frac = self.pick([0, 0, 1, 5, 25])
            s = "%d.%d" % (whole, frac)
            if self.chance(0.4):
                s += self.pick(["E", "e"]) + self.pick(["", "+", "-"]) + str(r.randint(0, 12))
            v = float(s)
            if not v.is_integer() and "e-" in repr(v):
                self.atom("lit.real.tiny")
            if v.is_integer() or ("e" in repr(v) and "e-" not in repr(v)):
                if not self.ok("lit.real.integral"):
                    s = "%d.%d" % (whole, self.rng.randint(1, 9) * 100 + self.rng.randint(1, 9))
                    v = float(s)
                else:
                    self.atom("lit.real.integral")
            # respell the digit groups with underscores (the value is unchanged)
            m_ = re.match(r"(\d+)\.(\d+)(?:([Ee][+-]?)(\d+))?$", s)
            s = self.us(m_.group(1), "real.whole") + "." + self.us(m_.group(2), "real.frac") + \
                ((m_.group(3) + self.us(m_.group(4), "real.exp")) if m_.group(3) else "")
            toks = []
            dt = None
            if kind == "lit.real.typed":
                dt = self.pick(REAL_TYPES)
                toks += [K(dt), O("#", True)]
            if kind == "lit.real.signed":
                sign = self.pick(["-", "+"] if self.ok("real.negative") else ["+"])
                if sign == "-":
                    self.atom("real.negative")
                toks.append(O(sign))
                if sign == "-":
                    v = -v
                toks.append(L(s, True))
            else:
                toks.append(L(s, bool(toks)))
            return toks, ["real", repr(v), dt.lower() if dt else None]
        if kind == "lit.bool":
            b = self.chance(0.5)
            return [K("TRUE" if b else "FALSE")], ["bool", b]
        if kind == "lit.bool.typed":
            b = self.chance(0.5)
            return [K("BOOL"), O("#", True), K("TRUE" if b else "FALSE", True)], ["bool", b]
        if kind in ("lit.string", "lit.wstring", "lit.string.typed"):
            chars = "".join(self.pick("abc XYZ019_-+*/(){}[];:.,!?<>=") for _ in range(r.randint(0, 8)))
            if self.ok("lit.string.nonascii") and self.chance(0.2):
                self.atom("lit.string.nonascii")
                k = r.randint(0, len(chars))
                chars = chars[:k] + self.pick(["é", "grün", "straße", "€€", "日本", "ñ", "🙂", "Ж",
                                                 # characters that look like blanks or like nothing: they are characters of the string
                                                 "\u00a0", "10\u00a0kg", "\u202f", "\u3000", "\u00ad", "\u200b", "\u2003", "a\u00a0\u00a0b"]) + chars[k:]
            if self.ok("lit.wstring.otherquote" if kind == "lit.wstring" else "lit.string.otherquote") and self.chance(0.15):
                # the other kind of quote mark is an ordinary character of a string, also first and last
                # (two atoms: the renderer writes every string constant of an expression between single quotes, which only
                # goes wrong for a double-byte string that contains one)
                self.atom("lit.wstring.otherquote" if kind == "lit.wstring" else "lit.string.otherquote")
                oq = "'" if kind == "lit.wstring" else '"'
                chars = self.pick([oq + chars, chars + oq, oq + chars + oq, oq])
            if self.ok("lit.string.escape") and self.chance(0.25):
                # escape sequences other than the quote itself: kept as written (decoding is not demanded)
                self.atom("lit.string.escape")
                k = r.randint(0, len(chars))
                chars = chars[:k] + self.pick(["$$", "$N", "$T", "$0A", "$L", "$$$$"]) + chars[k:]
            if self.ok("lit.string.escaped-quote") and self.chance(0.15):
                # '$' takes the next character with it: an escaped quote does not end the string (first, last, in a row)
                self.atom("lit.string.escaped-quote")
                eq = '$"' if kind == "lit.wstring" else "$'"
                k = r.randint(0, len(chars)) if "$" not in chars else self.pick([0, len(chars)])     # never inside an escape
                chars = self.pick([chars[:k] + eq + chars[k:], eq + chars, chars + eq, eq + eq, chars[:k] + "$$" + eq + chars[k:]])
            if kind == "lit.wstring":
                return [L('"%s"' % chars)], ["str", chars]
            if kind == "lit.string.typed":
                return [K("STRING"), O("#", True), L("'%s'" % chars, True)], ["str", chars]
            return [L("'%s'" % chars)], ["str", chars]
        if kind == "lit.duration":
            return self.duration()
        if kind == "lit.tod":
            h, m, s = r.randint(0, 23), r.randint(0, 59), r.randint(0, 59)
            us = 0
            txt = "%d:%d:%d" % (h, m, s)
            if self.ok("lit.tod.fraction") and self.chance(0.3):
                ms = r.randint(1, 999)
                txt = "%d:%d:%d.%s" % (h, m, s, self.us("%03d" % ms, "tod.frac"))
                us = ms * 1000
                self.atom("lit.tod.fraction")
            pfx = self.pick(["TOD", "TIME_OF_DAY"])
            return [K(pfx), O("#", True), L(txt, True)], ["tod", h, m, s, us]
        if kind == "lit.date":
            y, mo, d = r.randint(1970, 2100), r.randint(1, 12), r.randint(1, 28)
            pfx = self.choose([("lit.date.DATE", 2), ("lit.date.D", 1)])
            self.atom(pfx)
            ptok = K("DATE") if pfx == "lit.date.DATE" else TK("D")
            return [ptok, O("#", True), L("%d-%02d-%02d" % (y, mo, d), True)], ["date", y, mo, d]
        if kind == "lit.dt":
            y, mo, d = r.randint(1970, 2100), r.randint(1, 12), r.randint(1, 28)
            h, m, s = r.randint(0, 23), r.randint(0, 59), r.randint(0, 59)
            pfx = self.pick(["DT", "DATE_AND_TIME"])
            return [K(pfx), O("#", True), L("%d-%02d-%02d-%d:%d:%d" % (y, mo, d, h, m, s), True)], \
                ["dt", y, mo, d, h, m, s, 0]
        if kind == "lit.bits":
            t = self.pick(BIT_TYPES)
            s, v = self.int_text(0, 255)
            return [K(t), O("#", True), L(s, True)], ["bits", v, t.lower()]
        raise AssertionError(kind)

    def duration(self):
        r = self.rng
        unit, ns_per = self.pick([("d", 86400 * 10**9), ("h", 3600 * 10**9), ("m", 60 * 10**9), ("s", 10**9),
                                  ("ms", 10**6)])
        form = self.choose([("lit.duration.int", 3), ("lit.duration.fraction", 2), ("lit.duration.compound", 2)])
        self.atom(form)
        pfx = self.choose([("lit.duration.T", 2), ("lit.duration.TIME", 1)])
        ptok = TK("T") if pfx == "lit.duration.T" else K("TIME")
        neg = self.chance(0.2)
        toks = [ptok, O("#", True)]
        if neg:
            toks.append(O("-", True))
        if form == "lit.duration.int":
            v = r.randint(0, 500)
            toks += [L(self.us(str(v), "dur.int"), True), TK(unit, True)]
            ns = v * ns_per
        elif form == "lit.duration.fraction":
            v = r.randint(0, 500)
            f = r.randint(0, 999)
            if not self.ok("lit.duration.subms") and unit == "ms":
                f = 0
            toks += [L(self.us(str(v), "dur.whole") + "." + self.us("%03d" % f, "dur.frac"), True), TK(unit, True)]
            ns = v * ns_per + f * ns_per // 1000
        else:
            units = [("d", 86400 * 10**9), ("h", 3600 * 10**9), ("m", 60 * 10**9), ("s", 10**9), ("ms", 10**6)]
            i = r.randrange(0, 4)
            j = r.randrange(i + 1, 5)
            ns = 0
            first = True
            for k in range(i, j + 1):
                v = r.randint(0, 59)
                if not first and self.chance(0.3):
                    toks.append(O("_", True))
                toks += [L(str(v), True), TK(units[k][0], True)]
                ns += v * units[k][1]
                first = False
        if neg:
            ns = -ns
        if ns % 1000000:
            self.atom("lit.duration.subms")
        return toks, ["dur", ns]

    def enum_value(self, values, tname=None):
        v = self.pick(values)
        if tname and self.ok("enumval.typed") and self.chance(0.25):
            self.atom("enumval.typed")
            return [I(tname), O("#", True), I(v, True)], ["enumval", tname.lower(), v.lower()]
        return [I(v)], ["enumval", None, v.lower()]

    # ------------------------------------------------------------------ expressions
    def variable(self, names):
        """A variable reference: a name followed by a chain of field selectors and subscript lists
        (a.b, a[i], a.b[i], a[i].b[j], a.b.c, a[i][j] ...); selectors apply left to right."""
        n = self.pick(names)
        k = self.choose([("expr.var.named", 6), ("expr.var.field", 1), ("expr.var.index", 1),
                         ("expr.var.index.field", 1), ("expr.var.chain", 1.5)])
        self.atom(k)
        if k == "expr.var.named":
            return [I(n)], ["name", n.lower()]
        if k == "expr.var.field":
            shape = "f"
        elif k == "expr.var.index":
            shape = "i"
        elif k == "expr.var.index.field":
            shape = "if"
        else:
            shape = self.pick(["fi", "fif", "ifi", "ff", "fff", "ii", "ffi", "iff", "fii"])
            self.atom("expr.var.chain." + shape)
        toks = [I(n)]
        nf = ["name", n.lower()]
        for c in shape:
            if c == "f":
                f = self.pick(["fld", "Member1", "x", "items", "zq"])
                toks += [O("."), I(f)]
                nf = ["field", nf, f.lower()]
            else:
                subs = []
                stoks = []
                for i in range(self.rng.randint(1, 2)):
                    t, e = self.expr(1 if len(shape) < 3 else 0, names)
                    if i:
                        stoks.append(O(","))
                    stoks += t
                    subs.append(e)
                toks += [O("[")] + stoks + [O("]")]
                nf = ["index", nf, subs]
        return toks, nf

    def expr_tree(self, depth, names):
        """Random expression tree in NF."""
        r = self.rng
        if depth <= 0 or self.chance(0.3):
            k = self.choose([("expr.name", 5), ("expr.const", 3), ("expr.var", 2), ("expr.call", 1)])
            self.atom(k)
            if k == "expr.name":
                return ["name", self.pick(names).lower()]
            if k == "expr.const":
                t, nf = self.constant("expr")
                return ["_lit", t, nf]
            if k == "expr.var":
                t, nf = self.variable(names)
                if nf[0] == "name":
                    return nf
                return ["_lit", t, nf]
            return self.call_tree(depth, names)
        if self.chance(0.2):
            op = self.pick(UN_OPS)
            if op[1] == "Neg":
                self.atom("op.unary.neg")
            else:
                self.atom("op.NOT")
            child = self.expr_tree(depth - 1, names)
            if child[0] == "un" or (child[0] == "_lit" and child[2][0] in ("int", "real") and
                                    str(child[2][1]).startswith("-")):
                if not self.ok("expr.unary.nested"):
                    return child
                self.atom("expr.unary.nested")
            return ["un", op[1], child]
        t, k, o, lvl = self.pick(BIN_OPS)
        if t == "&" and not self.ok("op.amp"):
            t = "AND"
        self.atom("op." + (t if t.isalpha() else o))
        node = [k, o, self.expr_tree(depth - 1, names), self.expr_tree(depth - 1, names)]
        if t == "&":
            node.append("&")
        return node

    def call_tree(self, depth, names):
        fname = self.pick(["fnA", "Calc", "limit_it"])
        args = []
        style = self.pick(["pos", "named"] if self.ok("call.named") else ["pos"])
        for i in range(self.rng.randint(0, 3)):
            if style == "named":
                self.atom("call.named")
            e = self.expr_tree(depth - 1, names)
            if style == "pos":
                args.append(["pos", e])
            else:
                args.append(["named", "in%d" % i, e])
        return ["call", fname.lower(), args, fname]

    @staticmethod
    def level(nf):
        if nf[0] in ("bin", "cmp"):
            return OP_BY_NF[(nf[0], nf[1])][1]
        if nf[0] == "un":
            return 9
        return 10

    def emit_expr(self, nf, extra_parens=True):
        """Tokens for an NF tree with the minimal parentheses Annex B requires (plus a few
        redundant ones), and the clean NF (without the private bookkeeping entries)."""
        h = nf[0]
        if h == "_lit":
            return list(nf[1]), nf[2]
        if h == "name":
            return [I(nf[1])], ["name", nf[1].lower()]
        if h == "call":
            toks = [I(nf[3]), O("(")]
            args = []
            for i, a in enumerate(nf[2]):
                if i:
                    toks.append(O(","))
                if a[0] == "pos":
                    t, e = self.emit_expr(a[1])
                    toks += t
                    args.append(["pos", e])
                else:
                    t, e = self.emit_expr(a[2])
                    toks += [I(a[1]), O(":=")] + t
                    args.append(["named", a[1].lower(), e])
            toks.append(O(")"))
            return toks, ["call", nf[1], args]
        if h == "un":
            t, e = self.emit_expr(nf[2])
            if self.level(nf[2]) < 10:
                t = [O("(")] + t + [O(")")]
            optok = O("-") if nf[1] == "Neg" else K("NOT")
            return [optok] + t, ["un", nf[1], e]
        text, lvl = OP_BY_NF[(h, nf[1])]
        if len(nf) > 4:
            text = nf[4]
        lt, le = self.emit_expr(nf[2])
        rt, re_ = self.emit_expr(nf[3])
        ll = self.level(nf[2])
        rl = self.level(nf[3])
        # left-associative: a left child of the same level needs no parentheses, a right child does
        if ll < lvl or (nf[1] == "Pow" and ll <= lvl) or (ll == 9 and False):
            lt = [O("(")] + lt + [O(")")]
        elif extra_parens and self.chance(0.1):
            lt = [O("(")] + lt + [O(")")]
            self.atom("expr.redundant-parens")
        if rl <= lvl:
            rt = [O("(")] + rt + [O(")")]
        elif extra_parens and self.chance(0.1):
            rt = [O("(")] + rt + [O(")")]
            self.atom("expr.redundant-parens")
        optok = K(text) if text.isalpha() else O(text)
        return lt + [optok] + rt, [h, nf[1], le, re_]

    CHAIN_GROUPS = [[("+", "bin", "Add"), ("-", "bin", "Sub")], [("*", "bin", "Mul"), ("/", "bin", "Div")],
                    [("AND", "cmp", "And")], [("OR", "cmp", "Or")], [("XOR", "cmp", "Xor")]]

    def long_chain(self, names):
        """x0 + x1 - x2 + ... without parentheses: a flat chain of operators of one precedence level, 20 to 150
        operands long; Annex B makes it a left-leaning tree of that depth."""
        n = self.pick([20, 33, 64, 65, 66, 67, 80, 100, 128, 129, 150])
        group = self.pick(self.CHAIN_GROUPS)
        toks, nf = None, None
        for i in range(n):
            if self.chance(0.7):
                nm = self.pick(names)
                ot, onf = [I(nm)], ["name", nm.lower()]
            else:
                v = self.rng.randint(0, 99)
                ot, onf = [L(str(v))], ["int", v, None]
            if toks is None:
                toks, nf = ot, onf
            else:
                t, k, o = self.pick(group)
                toks = toks + [K(t) if t.isalpha() else O(t)] + ot
                nf = [k, o, nf, onf]
        return toks, nf

    def expr(self, depth, names):
        if depth > 0 and self.ok("expr.long-chain") and self.chance(0.012):
            self.atom("expr.long-chain")
            return self.long_chain(names)
        tree = self.expr_tree(depth, names)
        return self.emit_expr(tree)

    # ------------------------------------------------------------------ statements
    def statements(self, depth, names, fbs=(), n=None, in_loop=False):
        toks, nfs = [], []
        n = self.rng.randint(1, 3) if n is None else n
        if self.ok("stmts.only-empty") and self.ok("stmt.empty") and self.chance(0.04):
            # a statement list made of empty statements only (`WHILE x DO ; END_WHILE`)
            self.atom("stmts.only-empty")
            self.atom("stmt.empty")
            return [O(";")] * self.rng.randint(1, 2), []
        for _ in range(n):
            t, s = self.statement(depth, names, fbs, in_loop)
            toks += t
            if s is not None:
                nfs.append(s)
        return toks, nfs

    def statement(self, depth, names, fbs, in_loop=False):
        opts = [("stmt.assign", 6), ("stmt.fbcall", 2 if fbs else 0), ("stmt.empty", 0.5), ("stmt.return", 0.3)]
        if in_loop:
            opts.append(("stmt.exit", 0.5))
        if depth > 0:
            opts += [("stmt.if", 2), ("stmt.case", 1.5), ("stmt.for", 1), ("stmt.while", 1), ("stmt.repeat", 1)]
        k = self.choose([o for o in opts if o[1] > 0])
        self.atom(k)
        if k == "stmt.assign":
            vt, vnf = self.variable(names)
            et, enf = self.expr(self.rng.randint(0, self.depth), names)
            return vt + [O(":=")] + et + [O(";")], ["assign", vnf, enf]
        if k == "stmt.empty":
            return [O(";")], None
        if k == "stmt.return":
            return [K("RETURN"), O(";")], ["return"]
        if k == "stmt.exit":
            return [K("EXIT"), O(";")], ["exit"]
        if k == "stmt.fbcall":
            fb = self.pick(list(fbs))
            toks = [I(fb), O("(")]
            args = []
            style = self.choose([("fbcall.formal", 3), ("fbcall.positional", 1), ("fbcall.empty", 1)])
            self.atom(style)
            n = 0 if style == "fbcall.empty" else self.rng.randint(1, 3)
            for i in range(n):
                if i:
                    toks.append(O(","))
                if style == "fbcall.formal" and self.chance(0.3):
                    neg = self.ok("fbcall.output.not") and self.chance(0.3)
                    if neg:
                        self.atom("fbcall.output.not")
                        toks.append(K("NOT"))
                    self.atom("fbcall.output")
                    o = "out%d" % i
                    vt, vnf = self.variable(names)
                    toks += [I(o), O("=>")] + vt
                    args.append(["out", neg, o.lower(), vnf])
                elif style == "fbcall.formal":
                    et, enf = self.expr(1, names)
                    toks += [I("in%d" % i), O(":=")] + et
                    args.append(["named", "in%d" % i, enf])
                else:
                    et, enf = self.expr(1, names)
                    toks += et
                    args.append(["pos", enf])
            toks += [O(")"), O(";")]
            return toks, ["fbcall", fb.lower(), args]
        if k == "stmt.if":
            ct, cnf = self.expr(1, names)
            bt, bnf = self.statements(depth - 1, names, fbs, in_loop=in_loop)
            toks = [K("IF")] + ct + [K("THEN")] + bt
            elsifs = []
            for _ in range(self.rng.choice([0, 0, 1, 2])):
                self.atom("stmt.if.elsif")
                c2t, c2nf = self.expr(1, names)
                b2t, b2nf = self.statements(depth - 1, names, fbs, in_loop=in_loop)
                toks += [K("ELSIF")] + c2t + [K("THEN")] + b2t
                elsifs.append([c2nf, b2nf])
            else_nf = []
            if self.chance(0.4):
                self.atom("stmt.if.else")
                et, else_nf = self.statements(depth - 1, names, fbs, in_loop=in_loop)
                toks += [K("ELSE")] + et
            toks += [K("END_IF"), ("", "endif;", False)]
            return toks, ["if", cnf, bnf, elsifs, else_nf]
        if k == "stmt.case":
            st, snf = self.expr(1, names)
            toks = [K("CASE")] + st + [K("OF")]
            groups = []
            for _ in range(self.rng.randint(1, 3)):
                sels = []
                for i in range(self.rng.randint(1, 3 if self.ok("case.multi") else 1)):
                    if i:
                        toks.append(O(","))
                        self.atom("case.multi")
                    sk = self.choose([("case.int", 3), ("case.int.neg", 1 if self.ok("int.negative") else 0),
                                      ("case.range", 2), ("case.enum", 1)])
                    self.atom(sk)
                    if sk == "case.int":
                        s, v = self.dec_text()
                        toks.append(L(s))
                        sels.append(["int", v])
                    elif sk == "case.int.neg":
                        self.atom("int.negative")
                        s, v = self.dec_text(1, 100)
                        toks += [O("-"), L(s, True)]
                        sels.append(["int", -v])
                    elif sk == "case.range":
                        a = self.rng.randint(-50 if self.ok("int.negative") else 0, 50)
                        b = a + self.rng.randint(1, 50)
                        toks += self.signed_toks(a) + [O("..", True)] + self.signed_toks(b, True)
                        sels.append(["range", a, b])
                    else:
                        e = self.pick(["RED", "Green", "blue"])
                        toks.append(I(e))
                        sels.append(["enumval", None, e.lower()])
                toks.append(O(":"))
                bt, bnf = self.statements(depth - 1, names, fbs, in_loop=in_loop)
                toks += bt
                groups.append([sels, bnf])
            else_nf = []
            if self.chance(0.4):
                self.atom("stmt.case.else")
                et, else_nf = self.statements(depth - 1, names, fbs, in_loop=in_loop)
                toks += [K("ELSE")] + et
            toks += [K("END_CASE"), O(";")]
            return toks, ["case", snf, groups, else_nf]
        if k == "stmt.for":
            ctl = self.pick(names)
            ft, fnf = self.expr(1, names)
            tt, tnf_ = self.expr(1, names)
            toks = [K("FOR"), I(ctl), O(":=")] + ft + [K("TO")] + tt
            step = None
            if self.chance(0.4):
                self.atom("stmt.for.by")
                bt, step = self.expr(1, names)
                toks += [K("BY")] + bt
            bt, bnf = self.statements(depth - 1, names, fbs, in_loop=True)
            toks += [K("DO")] + bt + [K("END_FOR"), O(";")]
            return toks, ["for", ctl.lower(), fnf, tnf_, step, bnf]
        if k == "stmt.while":
            ct, cnf = self.expr(1, names)
            bt, bnf = self.statements(depth - 1, names, fbs, in_loop=True)
            return [K("WHILE")] + ct + [K("DO")] + bt + [K("END_WHILE"), O(";")], ["while", cnf, bnf]
        if k == "stmt.repeat":
            bt, bnf = self.statements(depth - 1, names, fbs, in_loop=True)
            ct, cnf = self.expr(1, names)
            return [K("REPEAT")] + bt + [K("UNTIL")] + ct + [K("END_REPEAT"), O(";")], ["repeat", bnf, cnf]
        raise AssertionError(k)

    def signed_toks(self, v, tight=False):
        if v < 0:
            self.atom("int.negative")
            return [O("-", tight), L(str(-v), True)]
        return [L(str(v), tight)]

    # ------------------------------------------------------------------ type declarations
    def subrange_spec(self):
        t = self.pick(INT_TYPES)
        a = self.rng.randint(-100 if self.ok("int.negative") else 0, 100)
        b = a + self.rng.randint(1, 100)
        toks = [K(t), O("(")] + self.signed_toks(a) + [O("..", True)] + self.signed_toks(b, True) + [O(")")]
        return toks, t.lower(), a, b

    def array_spec(self):
        toks = [K("ARRAY"), O("[")]
        ranges = []
        for i in range(self.rng.randint(1, 2)):
            if i:
                toks.append(O(","))
            a = self.rng.randint(-5 if self.ok("int.negative") else 0, 5)
            b = a + self.rng.randint(1, 9)
            toks += self.signed_toks(a) + [O("..", True)] + self.signed_toks(b, True)
            ranges.append([a, b])
        et = self.pick(INT_TYPES + ["BOOL", "REAL", "MyType"])
        toks += [O("]"), K("OF"), type_tok(et)]
        return toks, ranges, tnf(et)

    def array_init(self):
        toks = [O("[")]
        elems = []
        for i in range(self.rng.randint(1, 4)):
            if i:
                toks.append(O(","))
            k = self.choose([("arrinit.const", 3), ("arrinit.repeat", 1), ("arrinit.repeat.empty", 0.5),
                             ("arrinit.enum", 0.5)])
            self.atom(k)
            if k == "arrinit.const":
                s, v = self.dec_text()
                toks.append(L(s))
                elems.append(["int", v, None])
            elif k == "arrinit.enum":
                toks.append(I("RED"))
                elems.append(["enumval", None, "red"])
            elif k == "arrinit.repeat":
                n, nv = self.dec_text(1, 9)
                s, v = self.dec_text()
                toks += [L(n), O("("), L(s), O(")")]
                elems.append(["rep", nv, ["int", v, None]])
            else:
                n, nv = self.dec_text(1, 9)
                toks += [L(n), O("("), O(")")]
                elems.append(["rep", nv, None])
        toks.append(O("]"))
        return toks, elems

    def struct_init(self):
        toks = [O("(")]
        items = []
        for i in range(self.rng.randint(1, 3)):
            if i:
                toks.append(O(","))
            n = "m%d" % i
            k = self.choose([("structinit.const", 4), ("structinit.enum", 1), ("structinit.array", 0.5),
                             ("structinit.nested", 0.5)])
            self.atom(k)
            toks += [I(n), O(":=")]
            if k == "structinit.const":
                t, nf = self.constant()
                toks += t
                items.append([n, nf])
            elif k == "structinit.enum":
                toks.append(I("RED"))
                items.append([n, ["enumval", None, "red"]])
            elif k == "structinit.array":
                t, el = self.array_init()
                toks += t
                items.append([n, ["arrayinit", el]])
            else:
                toks += [O("("), I("z"), O(":="), L("1"), O(")")]
                items.append([n, ["struct", [["z", ["int", 1, None]]]]])
        toks.append(O(")"))
        return toks, items

    def type_decl(self, name):
        """One declaration inside TYPE ... END_TYPE (without the trailing ';')."""
        k = self.choose([("type.enum", 3), ("type.enum.default", 1), ("type.subrange", 2),
                         ("type.subrange.default", 1), ("type.simple.init", 1), ("type.alias", 2),
                         ("type.alias.elementary", 1), ("type.enum.alias.default", 1),
                         ("type.array", 2), ("type.array.init", 1), ("type.struct", 3), ("type.struct.init", 1),
                         ("type.string", 1), ("type.string.paren", 0.5), ("type.string.init", 0.5)])
        self.atom(k)
        head = [I(name), O(":")]
        if k in ("type.enum", "type.enum.default"):
            vals = [self.name("e") for _ in range(self.rng.randint(1, 4))]
            toks = head + [O("(")]
            for i, v in enumerate(vals):
                if i:
                    toks.append(O(","))
                toks.append(I(v))
            toks.append(O(")"))
            default = None
            if k == "type.enum.default":
                d = self.pick(vals)
                toks += [O(":="), I(d)]
                default = ["enumval", None, d.lower()]
            return toks, ["type", name.lower(), ["enum", [["enumval", None, v.lower()] for v in vals], default]]
        if k in ("type.subrange", "type.subrange.default"):
            st, t, a, b = self.subrange_spec()
            toks = head + st
            default = None
            if k == "type.subrange.default":
                d = self.rng.randint(a, b)
                toks += [O(":=")] + self.signed_toks(d)
                default = d
            return toks, ["type", name.lower(), ["subrange", t, a, b, default]]
        if k == "type.simple.init":
            t = self.pick(INT_TYPES)
            s, v = self.dec_text()
            return head + [K(t), O(":="), L(s)], ["type", name.lower(), ["simple", t.lower(), ["int", v, None]]]
        if k == "type.alias":
            b = self.pick(["BaseT", "Other_1"])
            return head + [I(b)], ["type", name.lower(), ["alias", b.lower()]]
        if k == "type.alias.elementary":
            b = self.pick(INT_TYPES + ["BOOL", "REAL", "TIME"])
            return head + [K(b)], ["type", name.lower(), ["alias", b.lower()]]
        if k == "type.enum.alias.default":
            b = self.pick(["BaseT", "Other_1"])
            return head + [I(b), O(":="), I("RED")], \
                ["type", name.lower(), ["enum_alias", b.lower(), ["enumval", None, "red"]]]
        if k in ("type.array", "type.array.init"):
            at, ranges, et = self.array_spec()
            toks = head + at
            init = []
            if k == "type.array.init":
                it, init = self.array_init()
                toks += [O(":=")] + it
            return toks, ["type", name.lower(), ["array", ranges, et, init]]
        if k == "type.struct":
            toks = head + [K("STRUCT")]
            elems = []
            for i in range(self.rng.randint(1, 4)):
                en = "f%d" % i if self.chance(0.5) else self.name("f")
                it, inf = self.struct_element_spec()
                toks += [I(en), O(":")] + it + [O(";")]
                elems.append([en.lower(), inf])
            toks.append(K("END_STRUCT"))
            return toks, ["type", name.lower(), ["struct", elems]]
        if k == "type.struct.init":
            b = self.pick(["BaseS", "Rec"])
            it, items = self.struct_init()
            return head + [I(b), O(":=")] + it, ["type", name.lower(), ["struct_init", b.lower(),
                                                                       [[n.lower(), v] for n, v in items]]]
        if k in ("type.string", "type.string.paren", "type.string.init"):
            w = self.pick(["STRING", "WSTRING"])
            n, nv = self.dec_text(1, 255)
            br = ("(", ")") if k == "type.string.paren" else ("[", "]")
            toks = head + [K(w), O(br[0]), L(n), O(br[1])]
            init = None
            if k == "type.string.init":
                q = "'" if w == "STRING" else '"'
                toks += [O(":="), L(q + "abc" + q)]
                init = "abc"
            return toks, ["type", name.lower(), ["string", "String" if w == "STRING" else "WString", nv, init]]
        raise AssertionError(k)

    def struct_element_spec(self):
        k = self.choose([("selem.elementary", 4), ("selem.elementary.init", 2), ("selem.named", 2),
                         ("selem.named.init.enum", 1), ("selem.subrange", 1), ("selem.subrange.default", 0.5),
                         ("selem.enumvals", 1), ("selem.enumvals.default", 0.5), ("selem.array", 1),
                         ("selem.array.init", 0.5), ("selem.struct.init", 0.5)])
        self.atom(k)
        if k == "selem.elementary":
            t = self.pick(ELEM_TYPES[:-2])
            return [K(t)], ["t", tnf(t), None]
        if k == "selem.elementary.init":
            t = self.pick(INT_TYPES)
            s, v = self.dec_text()
            return [K(t), O(":="), L(s)], ["t", t.lower(), ["int", v, None]]
        if k == "selem.named":
            return [I("OtherT")], ["t", "othert", None]
        if k == "selem.named.init.enum":
            return [I("Color"), O(":="), I("RED")], ["t", "color", ["enumval", None, "red"]]
        if k in ("selem.subrange", "selem.subrange.default"):
            st, t, a, b = self.subrange_spec()
            if k == "selem.subrange.default":
                d = self.rng.randint(a, b)
                return st + [O(":=")] + self.signed_toks(d), ["subrange", t, a, b, d]
            return st, ["subrange", t, a, b, None]
        if k in ("selem.enumvals", "selem.enumvals.default"):
            vals = ["ea", "Eb", "EC"][:self.rng.randint(1, 3)]
            toks = [O("(")]
            for i, v in enumerate(vals):
                if i:
                    toks.append(O(","))
                toks.append(I(v))
            toks.append(O(")"))
            d = None
            if k == "selem.enumvals.default":
                dv = self.pick(vals)
                toks += [O(":="), I(dv)]
                d = ["enumval", None, dv.lower()]
            return toks, ["enumvals", [["enumval", None, v.lower()] for v in vals], d]
        if k in ("selem.array", "selem.array.init"):
            at, ranges, et = self.array_spec()
            init = []
            if k == "selem.array.init":
                it, init = self.array_init()
                at = at + [O(":=")] + it
            return at, ["array", ranges, et, init]
        if k == "selem.struct.init":
            it, items = self.struct_init()
            return [I("Rec"), O(":=")] + it, ["t", "rec", ["struct", [[n.lower(), v] for n, v in items]]]
        raise AssertionError(k)

    def type_block(self, names):
        toks = [K("TYPE")]
        nfs = []
        for n in names:
            t, nf = self.type_decl(n)
            toks += t + [O(";")]
            nfs.append(nf)
        toks.append(K("END_TYPE"))
        return toks, nfs

    # ------------------------------------------------------------------ variables
    def var_init(self, klass):
        """type-and-initial-value part of a variable declaration valid for VAR / VAR_INPUT / VAR_OUTPUT."""
        k = self.choose([("vinit.elementary", 5), ("vinit.elementary.init", 3), ("vinit.named", 2),
                         ("vinit.named.init.const", 1), ("vinit.named.init.enum", 1), ("vinit.enumvals", 1),
                         ("vinit.enumvals.default", 0.5), ("vinit.struct.init", 1), ("vinit.array", 1),
                         ("vinit.array.init", 1), ("vinit.string", 1), ("vinit.string.len", 1),
                         ("vinit.string.init", 0.5), ("vinit.subrange", 0.5)])
        self.atom(k)
        if k == "vinit.elementary":
            t = self.pick(ELEM_TYPES[:-2])
            return [K(t)], ["t", tnf(t), None]
        if k == "vinit.elementary.init":
            t = self.pick(INT_TYPES + REAL_TYPES + ["BOOL", "TIME"])
            ct, cnf = self.constant()
            return [K(t), O(":=")] + ct, ["t", t.lower(), cnf]
        if k == "vinit.named":
            n = self.pick(["MyType", "Color", "FbType1"])
            return [I(n)], ["t", n.lower(), None]
        if k == "vinit.named.init.const":
            s, v = self.dec_text()
            return [I("MyType"), O(":="), L(s)], ["t", "mytype", ["int", v, None]]
        if k == "vinit.named.init.enum":
            vt, vnf = self.enum_value(["RED", "Green"], "Color")
            return [I("Color"), O(":=")] + vt, ["t", "color", vnf]
        if k in ("vinit.enumvals", "vinit.enumvals.default"):
            vals = ["ea", "Eb", "EC"][:self.rng.randint(1, 3)]
            toks = [O("(")]
            for i, v in enumerate(vals):
                if i:
                    toks.append(O(","))
                toks.append(I(v))
            toks.append(O(")"))
            d = None
            if k == "vinit.enumvals.default":
                dv = self.pick(vals)
                toks += [O(":="), I(dv)]
                d = ["enumval", None, dv.lower()]
            return toks, ["enumvals", [["enumval", None, v.lower()] for v in vals], d]
        if k == "vinit.struct.init":
            it, items = self.struct_init()
            return [I("Rec"), O(":=")] + it, ["t", "rec", ["struct", [[n.lower(), v] for n, v in items]]]
        if k in ("vinit.array", "vinit.array.init"):
            at, ranges, et = self.array_spec()
            init = []
            if k == "vinit.array.init":
                it, init = self.array_init()
                at = at + [O(":=")] + it
            return at, ["array", ranges, et, init]
        if k in ("vinit.string", "vinit.string.len", "vinit.string.init"):
            w = self.pick(["STRING", "WSTRING"])
            toks = [K(w)]
            ln = None
            init = None
            if k != "vinit.string":
                n, ln = self.dec_text(1, 255)
                toks += [O("["), L(n), O("]")]
            if k == "vinit.string.init":
                q = "'" if w == "STRING" else '"'
                toks += [O(":="), L(q + "hi" + q)]
                init = "hi"
            return toks, ["string", "String" if w == "STRING" else "WString", ln, init]
        if k == "vinit.subrange":
            st, t, a, b = self.subrange_spec()
            return st, ["subrange", t, a, b, None]
        raise AssertionError(k)

    def var_block(self, pou, names_out, fb_out):
        """One VAR-ish block valid in the given POU kind ('function', 'fb', 'program').
        Returns tokens, list of var NF, list of edge NF."""
        opts = [("var.VAR", 5), ("var.INPUT", 3), ("var.OUTPUT", 2), ("var.IN_OUT", 1)]
        if pou in ("fb", "program"):
            opts += [("var.EXTERNAL", 1), ("var.INCOMPLETE", 0.5)]
        if pou == "program":
            opts += [("var.LOCATED", 1)]
        k = self.choose(opts)
        self.atom(k)
        vars_, edges = [], []
        if k == "var.VAR":
            quals = [("", "Unspecified"), ("CONSTANT", "Constant")]
            if pou != "function":
                quals += [("RETAIN", "Retain"), ("NON_RETAIN", "NonRetain")]
            q = self.pick(quals)
            self.atom("var.VAR." + q[1])
            toks = [K("VAR")] + ([K(q[0])] if q[0] else [])
            for _ in range(self.rng.randint(1, 3)):
                nms = [self.name() for _ in range(self.rng.choice([1, 1, 1, 2]))]
                if pou == "function":
                    it, inf = self.var_init_function()
                else:
                    it, inf = self.var_init("Var")
                    if q[1] == "Constant" and inf[0] == "t" and inf[2] is None and inf[1] not in ("fbtype1",):
                        pass
                toks += self.name_list(nms) + [O(":")] + it + [O(";")]
                for n in nms:
                    vars_.append(["var", n.lower(), "Var", q[1], inf])
                    names_out.append(n)
                    if inf[0] == "t" and inf[1] == "fbtype1":
                        fb_out.append(n)
            toks.append(K("END_VAR"))
            return toks, vars_, edges
        if k in ("var.INPUT", "var.OUTPUT"):
            quals = [("", "Unspecified"), ("RETAIN", "Retain"), ("NON_RETAIN", "NonRetain")]
            q = self.pick(quals)
            klass = "Input" if k == "var.INPUT" else "Output"
            self.atom(k + "." + q[1])
            toks = [K("VAR_INPUT" if klass == "Input" else "VAR_OUTPUT")] + ([K(q[0])] if q[0] else [])
            for _ in range(self.rng.randint(1, 3)):
                nms = [self.name() for _ in range(self.rng.choice([1, 1, 2]))]
                if klass == "Input" and self.ok("var.INPUT.edge") and self.chance(0.2) and \
                        (pou != "program" or self.ok("var.INPUT.edge.program")):
                    self.atom("var.INPUT.edge")
                    if pou == "program":
                        self.atom("var.INPUT.edge.program")
                    e = self.pick([("R_EDGE", "Rising"), ("F_EDGE", "Falling")])
                    toks += self.name_list(nms) + [O(":"), K("BOOL"), K(e[0]), O(";")]
                    for n in nms:
                        edges.append(["edge", n.lower(), e[1], q[1]])
                        names_out.append(n)
                    continue
                it, inf = self.var_init(klass)
                toks += self.name_list(nms) + [O(":")] + it + [O(";")]
                for n in nms:
                    vars_.append(["var", n.lower(), klass, q[1], inf])
                    names_out.append(n)
            toks.append(K("END_VAR"))
            return toks, vars_, edges
        if k == "var.IN_OUT":
            toks = [K("VAR_IN_OUT")]
            for _ in range(self.rng.randint(1, 2)):
                n = self.name()
                kk = self.choose([("inout.elementary", 3), ("inout.named", 2), ("inout.array", 1),
                                  ("inout.string", 1), ("inout.subrange", 0.5), ("inout.enumvals", 0.5)])
                self.atom(kk)
                if kk == "inout.elementary":
                    t = self.pick(INT_TYPES + ["BOOL", "REAL"])
                    it, inf = [K(t)], ["t", t.lower(), None]
                elif kk == "inout.named":
                    it, inf = [I("MyType")], ["t", "mytype", None]
                elif kk == "inout.array":
                    at, ranges, et = self.array_spec()
                    it, inf = at, ["array", ranges, et, []]
                elif kk == "inout.string":
                    it, inf = [K("STRING")], ["string", "String", None, None]
                elif kk == "inout.subrange":
                    st, t, a, b = self.subrange_spec()
                    it, inf = st, ["subrange", t, a, b, None]
                else:
                    it = [O("("), I("ea"), O(","), I("Eb"), O(")")]
                    inf = ["enumvals", [["enumval", None, "ea"], ["enumval", None, "eb"]], None]
                toks += [I(n), O(":")] + it + [O(";")]
                vars_.append(["var", n.lower(), "InOut", "Unspecified", inf])
                names_out.append(n)
            toks.append(K("END_VAR"))
            return toks, vars_, edges
        if k == "var.EXTERNAL":
            q = self.pick([("", "Unspecified"), ("CONSTANT", "Constant")])
            self.atom("var.EXTERNAL." + q[1])
            toks = [K("VAR_EXTERNAL")] + ([K(q[0])] if q[0] else [])
            for _ in range(self.rng.randint(1, 2)):
                n = self.name("g")
                t = self.pick(INT_TYPES + ["BOOL", "MyType"])
                toks += [I(n), O(":"), type_tok(t), O(";")]
                vars_.append(["var", n.lower(), "External", q[1], ["t", tnf(t), None]])
                names_out.append(n)
            toks.append(K("END_VAR"))
            return toks, vars_, edges
        if k == "var.LOCATED":
            q = self.pick([("", "Unspecified"), ("CONSTANT", "Constant"), ("RETAIN", "Retain"),
                           ("NON_RETAIN", "NonRetain")])
            self.atom("var.LOCATED." + q[1])
            toks = [K("VAR")] + ([K(q[0])] if q[0] else [])
            for _ in range(self.rng.randint(1, 2)):
                named = self.chance(0.7)
                n = self.name() if named else None
                at, anf = self.address()
                t = self.pick(["BOOL", "INT", "WORD"])
                toks += ([I(n)] if named else []) + [K("AT")] + at + [O(":"), K(t)]
                init = None
                if self.chance(0.3):
                    s, v = self.dec_text(0, 1)
                    toks += [O(":="), L(s)]
                    init = ["int", v, None]
                toks.append(O(";"))
                vars_.append(["var", ["at", n.lower() if n else None] + anf, "Var", q[1],
                              ["t", t.lower(), init]])
                if n:
                    names_out.append(n)
            toks.append(K("END_VAR"))
            return toks, vars_, edges
        if k == "var.INCOMPLETE":
            q = self.pick([("", "Unspecified"), ("RETAIN", "Retain"), ("NON_RETAIN", "NonRetain")])
            self.atom("var.INCOMPLETE." + q[1])
            toks = [K("VAR")] + ([K(q[0])] if q[0] else [])
            n = self.name()
            loc = self.pick(["I", "Q", "M"])
            t = self.pick(["BOOL", "INT", "MyType", "STRING", "WSTRING", "STRING[n]", "WSTRING[n]"])
            if t.endswith("[n]"):
                # a sized string of either width
                ln = self.rng.randint(1, 80)
                ttoks = [K(t[:-3]), O("["), L(str(ln)), O("]")]
                inf = ["string", "String" if t == "STRING[n]" else "WString", ln, None]
            else:
                ttoks = [type_tok(t)]
                inf = ["string", "String" if t == "STRING" else "WString", None, None] if t in ("STRING", "WSTRING") else ["t", tnf(t), None]
            toks += [I(n), K("AT"), L("%" + loc + "*"), O(":")] + ttoks + [O(";"), K("END_VAR")]
            self.addrs.append([loc, "Unspecified", []])
            vars_.append(["var", ["at", n.lower(), loc, "Unspecified", []], "Var", q[1], inf])
            names_out.append(n)
            return toks, vars_, edges
        raise AssertionError(k)

    def var_init_function(self):
        """function VAR blocks only take the simple / enumerated forms (var2_init_decl)."""
        k = self.choose([("fvinit.elementary", 4), ("fvinit.elementary.init", 2), ("fvinit.named", 2),
                         ("fvinit.enumvals", 1)])
        self.atom(k)
        if k == "fvinit.elementary":
            t = self.pick(INT_TYPES + ["BOOL", "REAL", "TIME"])
            return [K(t)], ["t", t.lower(), None]
        if k == "fvinit.elementary.init":
            t = self.pick(INT_TYPES)
            s, v = self.dec_text()
            return [K(t), O(":="), L(s)], ["t", t.lower(), ["int", v, None]]
        if k == "fvinit.named":
            return [I("MyType")], ["t", "mytype", None]
        return [O("("), I("ea"), O(","), I("Eb"), O(")")], \
            ["enumvals", [["enumval", None, "ea"], ["enumval", None, "eb"]], None]

    def name_list(self, names):
        toks = []
        for i, n in enumerate(names):
            if i:
                toks.append(O(","))
            toks.append(I(n))
        if len(names) > 1:
            self.atom("var.name-list")
        return toks

    def address(self):
        loc = self.pick(["I", "Q", "M"])
        size = self.choose([("addr.size.X", 2), ("addr.size.B", 1), ("addr.size.W", 1), ("addr.size.D", 1),
                            ("addr.size.L", 1), ("addr.size.none", 1)])
        self.atom(size)
        sz = size.split(".")[-1]
        multi = self.ok("addr.multidigit") and self.chance(0.3)
        if multi:
            self.atom("addr.multidigit")
        comps = [self.rng.randint(0, 255 if multi else 9) for _ in range(self.pick([1, 1, 2, 2, 3, 3, 4, 5]))]
        self.atom("addr.depth.%d" % len(comps))
        text = "%" + loc + ("" if sz == "none" else sz) + ".".join(str(c) for c in comps)
        self.addrs.append([loc, "Nil" if sz == "none" else sz, comps])
        return [L(text)], [loc, "Nil" if sz == "none" else sz, comps]

    # ------------------------------------------------------------------ POUs
    def var_blocks(self, pou, names, fbs):
        toks, vars_, edges = [], [], []
        # always one plain block so that statements have names to use
        for _ in range(self.rng.randint(1, 3)):
            t, v, e = self.var_block(pou, names, fbs)
            toks += t
            vars_ += v
            edges += e
        return toks, vars_, edges

    def function(self, name):
        names, fbs = [name], []
        rt = self.pick(INT_TYPES + ["BOOL", "REAL", "MyType"])
        self.atom("pou.function")
        vt, vars_, edges = self.var_blocks("function", names, fbs)
        bt, bnf = self.statements(self.depth, names, (), n=self.rng.randint(1, 3))
        if not bnf:
            bt += [I(name), O(":="), L("0"), O(";")]
            bnf.append(["assign", ["name", name.lower()], ["int", 0, None]])
        toks = [K("FUNCTION"), I(name), O(":"), type_tok(rt)] + vt + bt + [K("END_FUNCTION")]
        return toks, ["function", name.lower(), tnf(rt), vars_, edges, bnf]

    def body(self, names, fbs):
        k = self.choose([("body.statements", 6), ("body.sfc", 1.5), ("body.empty", 0.5)])
        self.atom(k)
        if k == "body.empty":
            return [], ["empty"]
        if k == "body.statements":
            bt, bnf = self.statements(self.depth, names, fbs, n=self.rng.randint(1, 4))
            return bt, ["stmts", bnf]
        return self.sfc(names, fbs)

    def function_block(self, name):
        names, fbs = [], []
        self.atom("pou.function_block")
        vt, vars_, edges = self.var_blocks("fb", names, fbs)
        if not names:
            names.append("dflt")
        bt, bnf = self.body(names, fbs)
        toks = [K("FUNCTION_BLOCK"), I(name)] + vt + bt + [K("END_FUNCTION_BLOCK")]
        return toks, ["fb", name.lower(), vars_, edges, bnf]

    def program(self, name):
        names, fbs = [], []
        self.atom("pou.program")
        vt, vars_, edges = self.var_blocks("program", names, fbs)
        access = []
        if self.ok("var.ACCESS") and self.chance(0.15):
            self.atom("var.ACCESS")
            an = self.name("acc")
            d = self.pick([None, ("READ_ONLY", "ReadOnly"), ("READ_WRITE", "ReadWrite")])
            vn = self.name()
            names.append(vn)
            vt += [K("VAR"), I(vn), O(":"), K("INT"), O(";"), K("END_VAR")]
            vars_.append(["var", vn.lower(), "Var", "Unspecified", ["t", "int", None]])
            vt += [K("VAR_ACCESS"), I(an), O(":"), I(vn), O(":"), K("INT")] + ([K(d[0])] if d else []) + \
                [O(";"), K("END_VAR")]
            access.append(["access", an.lower(), ["name", vn.lower()], "int", d[1] if d else None])
        if not names:
            names.append("dflt")
        bt, bnf = self.body(names, fbs)
        toks = [K("PROGRAM"), I(name)] + vt + bt + [K("END_PROGRAM")]
        # edge variables are not represented in a ProgramDeclaration; generate none there
        return toks, ["program", name.lower(), vars_, edges, access, bnf]

    # ------------------------------------------------------------------ SFC
    def sfc(self, names, fbs):
        self.atom("sfc")
        steps = ["Start"] + [self.name("st") for _ in range(self.rng.randint(1, 3))]
        actions = [self.name("act") for _ in range(self.rng.randint(1, 2))]
        toks = [K("INITIAL_STEP"), I(steps[0]), O(":")]
        init_assoc = []
        if self.ok("sfc.initial.assoc") and self.chance(0.3):
            self.atom("sfc.initial.assoc")
            at, anf = self.action_assoc(actions, names)
            toks += at + [O(";")]
            init_assoc.append(anf)
        toks.append(K("END_STEP"))
        elements = []
        for s in steps[1:]:
            toks += [K("STEP"), I(s), O(":")]
            assocs = []
            n = self.rng.randint(0 if self.ok("sfc.step.empty") else 1, 2)
            if n == 0:
                self.atom("sfc.step.empty")
            for _ in range(n):
                at, anf = self.action_assoc(actions, names)
                toks += at + [O(";")]
                assocs.append(anf)
            toks.append(K("END_STEP"))
            elements.append(["step", s.lower(), assocs])
        for i in range(len(steps) - 1):
            tname = None
            toks.append(K("TRANSITION"))
            if self.ok("sfc.transition.name") and self.chance(0.3):
                self.atom("sfc.transition.name")
                tname = self.name("tr")
                toks.append(I(tname))
            prio = None
            if self.ok("sfc.transition.priority") and self.chance(0.3):
                self.atom("sfc.transition.priority")
                prio = self.rng.randint(0, 9)
                toks += [O("("), TK("PRIORITY"), O(":="), L(str(prio)), O(")")]
            frm = [steps[i]]
            to = [steps[i + 1]]
            if self.ok("sfc.transition.multi") and self.chance(0.3) and len(steps) > 2:
                self.atom("sfc.transition.multi")
                k = self.rng.randint(2, min(3, len(steps)))
                if k == 3:
                    self.atom("sfc.transition.multi3")
                frm = self.rng.sample(steps, k)
            toks.append(K("FROM"))
            toks += self.step_list(frm)
            toks.append(K("TO"))
            toks += self.step_list(to)
            ct, cnf = self.expr(1, names)
            toks += [O(":=")] + ct + [O(";"), K("END_TRANSITION")]
            elements.append(["transition", tname.lower() if tname else None, prio, [x.lower() for x in frm],
                             [x.lower() for x in to], cnf])
        for a in actions:
            bt, bnf = self.statements(1, names, fbs, n=self.rng.randint(1, 2))
            toks += [K("ACTION"), I(a), O(":")] + bt + [K("END_ACTION")]
            elements.append(["action", a.lower(), ["stmts", bnf]])
        return toks, ["sfc", [[["step", steps[0].lower(), init_assoc], elements]]]

    def step_list(self, steps):
        if len(steps) == 1:
            return [I(steps[0])]
        toks = [O("(")]
        for i, s in enumerate(steps):
            if i:
                toks.append(O(","))
            toks.append(I(s))
        toks.append(O(")"))
        return toks

    def action_assoc(self, actions, names):
        a = self.pick(actions)
        toks = [I(a), O("(")]
        q = self.choose([("aq.none", 1), ("aq.N", 2), ("aq.R", 1), ("aq.S", 1), ("aq.L", 1), ("aq.D", 1), ("aq.P", 1),
                         ("aq.SD", 1), ("aq.DS", 1), ("aq.SL", 1), ("aq.P1", 0.5), ("aq.P0", 0.5)])
        self.atom(q)
        qn = q.split(".")[1]
        qnf = None
        if qn != "none":
            toks.append(TK(qn))
            if qn in ("SD", "DS", "SL", "P1", "P0"):
                toks.append(O(","))
                if self.chance(0.5):
                    dt, dnf = self.duration()
                    toks += dt
                    tm = dnf
                else:
                    v = self.pick(names)
                    toks.append(I(v))
                    tm = ["name", v.lower()]
                qnf = [{"P1": "PR", "P0": "PF"}.get(qn, qn), tm]
            else:
                qnf = [qn, None]
        inds = []
        if qn != "none" and self.chance(0.2):
            self.atom("sfc.indicator")
            for _ in range(self.rng.randint(1, 2)):
                v = self.pick(names)
                toks += [O(","), I(v)]
                inds.append(v.lower())
        toks.append(O(")"))
        return toks, ["assoc", a.lower(), qnf, inds]

    # ------------------------------------------------------------------ configuration
    def configuration(self, name, programs):
        self.atom("configuration")
        toks = [K("CONFIGURATION"), I(name)]
        globals_ = []
        if self.ok("var.GLOBAL") and self.chance(0.5):
            gt, globals_ = self.global_block()
            toks += gt
        rname = self.name("res")
        toks += [K("RESOURCE"), I(rname), K("ON"), I("PLC")]
        rglobals = []
        if self.ok("var.GLOBAL") and self.ok("resource.globals") and self.chance(0.3):
            self.atom("resource.globals")
            gt, rglobals = self.global_block()
            toks += gt
        tasks = []
        for _ in range(self.rng.randint(0, 2)):
            tn = self.name("tsk")
            prio = self.rng.randint(0, 20)
            toks += [K("TASK"), I(tn), O("(")]
            interval = None
            if self.ok("task.interval") and self.chance(0.6):
                self.atom("task.interval")
                dt, dnf = self.duration()
                toks += [TK("INTERVAL"), O(":=")] + dt + [O(",")]
                interval = dnf
            toks += [TK("PRIORITY"), O(":="), L(str(prio)), O(")"), O(";")]
            tasks.append(["task", tn.lower(), prio, interval])
        progs = []
        for _ in range(self.rng.randint(1, 2)):
            pn = self.name("inst")
            pt = self.pick(programs) if programs else "MainProg"
            toks.append(K("PROGRAM"))
            storage = None
            if self.ok("progconf.storage") and self.chance(0.2):
                st = self.pick([("RETAIN", "Retain"), ("NON_RETAIN", "NonRetain")])
                self.atom("progconf.storage")
                toks.append(K(st[0]))
                storage = st[1]
            toks.append(I(pn))
            task = None
            if tasks and self.chance(0.6):
                task = self.pick(tasks)[1]
                toks += [K("WITH"), I(task)]
            toks += [O(":"), I(pt)]
            sources, sinks, fbtasks = [], [], []
            if self.ok("progconf.elements") and self.chance(0.4):
                self.atom("progconf.elements")
                toks.append(O("("))
                for i in range(self.rng.randint(1, 3)):
                    if i:
                        toks.append(O(","))
                    ek = self.choose([("pce.source.const", 2), ("pce.source.global", 1), ("pce.source.direct", 1),
                                      ("pce.sink.global", 1), ("pce.sink.direct", 1),
                                      ("pce.fbtask", 1 if tasks else 0)])
                    self.atom(ek)
                    v = self.name("p")
                    if ek == "pce.source.const":
                        s, val = self.dec_text()
                        toks += [I(v), O(":="), L(s)]
                        sources.append(["source", ["name", v.lower()], ["int", val, None]])
                    elif ek == "pce.source.global":
                        g = self.name("g")
                        toks += [I(v), O(":="), I(g)]
                        # a bare identifier here is an enumerated value or a global reference: both readings
                        sources.append(["source", ["name", v.lower()], ["ident", g.lower()]])
                    elif ek == "pce.source.direct":
                        at, anf = self.address()
                        toks += [I(v), O(":=")] + at
                        sources.append(["source", ["name", v.lower()], ["direct"] + anf])
                    elif ek == "pce.sink.global":
                        g = self.name("g")
                        toks += [I(v), O("=>"), I(g)]
                        sinks.append(["sink", ["name", v.lower()], ["gref", None, g.lower(), None]])
                    elif ek == "pce.sink.direct":
                        at, anf = self.address()
                        toks += [I(v), O("=>")] + at
                        sinks.append(["sink", ["name", v.lower()], ["direct"] + anf])
                    else:
                        tk = self.pick(tasks)[1]
                        toks += [I(v), K("WITH"), I(tk)]
                        fbtasks.append(["fbtask", v.lower(), tk])
                toks.append(O(")"))
            toks.append(O(";"))
            progs.append(["progconf", pn.lower(), storage, task, pt.lower(), fbtasks, sources, sinks])
        toks.append(K("END_RESOURCE"))
        fb_inits, loc_inits = [], []
        if self.ok("var.CONFIG") and self.chance(0.3):
            self.atom("var.CONFIG")
            toks.append(K("VAR_CONFIG"))
            for _ in range(self.rng.randint(1, 2)):
                ck = self.choose([("varconfig.located", 2), ("varconfig.fb", 1)])
                self.atom(ck)
                path = [rname, progs[0][1], self.name("fbi")]
                if self.chance(0.4):
                    path.append(self.name("x"))
                ptoks = []
                for i, pth in enumerate(path):
                    if i:
                        ptoks.append(O("."))
                    ptoks.append(I(pth))
                if ck == "varconfig.located":
                    at, anf = self.address()
                    t = self.pick(["INT", "BOOL"])
                    toks += ptoks + [K("AT")] + at + [O(":"), K(t)]
                    init = None
                    if self.chance(0.5):
                        s, v = self.dec_text(0, 1)
                        toks += [O(":="), L(s)]
                        init = ["int", v, None]
                    toks.append(O(";"))
                    loc_inits.append(["locinit", path[0].lower(), path[1].lower(), [x.lower() for x in path[2:]],
                                      anf, ["t", t.lower(), init]])
                else:
                    it, items = self.struct_init()
                    toks += ptoks + [O(":"), I("FbType1"), O(":=")] + it + [O(";")]
                    fb_inits.append(["fbinit", path[0].lower(), path[1].lower(), [x.lower() for x in path[2:]],
                                     "fbtype1", [[n.lower(), v] for n, v in items]])
            toks.append(K("END_VAR"))
        toks.append(K("END_CONFIGURATION"))
        return toks, ["config", name.lower(), globals_,
                      [["resource", rname.lower(), "plc", rglobals, tasks, progs]], fb_inits, loc_inits]

    def global_block(self):
        q = self.pick([("", "Unspecified"), ("CONSTANT", "Constant"), ("RETAIN", "Retain")])
        self.atom("var.GLOBAL." + q[1])
        self.atom("var.GLOBAL")
        toks = [K("VAR_GLOBAL")] + ([K(q[0])] if q[0] else [])
        vars_ = []
        for _ in range(self.rng.randint(1, 3)):
            k = self.choose([("global.simple", 4), ("global.init", 2), ("global.named", 1), ("global.located", 1),
                             ("global.list", 1)])
            self.atom(k)
            if k == "global.located":
                n = self.name("g")
                at, anf = self.address()
                toks += [I(n), K("AT")] + at + [O(":"), K("INT"), O(";")]
                vars_.append(["var", ["at", n.lower()] + anf, "Global", q[1], ["t", "int", None]])
                continue
            nms = [self.name("g") for _ in range(2 if k == "global.list" else 1)]
            if k == "global.named":
                it, inf = [I("MyType")], ["t", "mytype", None]
            elif k == "global.init":
                t = self.pick(INT_TYPES)
                s, v = self.dec_text()
                it, inf = [K(t), O(":="), L(s)], ["t", t.lower(), ["int", v, None]]
            else:
                t = self.pick(INT_TYPES + ["BOOL", "REAL"])
                it, inf = [K(t)], ["t", t.lower(), None]
            toks += self.name_list(nms) + [O(":")] + it + [O(";")]
            for n in nms:
                vars_.append(["var", n.lower(), "Global", q[1], inf])
        toks.append(K("END_VAR"))
        return toks, vars_

    # ------------------------------------------------------------------ whole library
    def library(self, n_decls=None):
        n = n_decls or self.rng.randint(1, 8)
        toks, nfs = [], []
        programs = []
        i = 0
        tries = 0
        while i < n:
            k = self.choose([("decl.type", 3), ("decl.function", 2), ("decl.fb", 3), ("decl.program", 3),
                             ("decl.config", 1)])
            saved = (set(self.atoms), list(self.addrs))
            try:
                if k == "decl.type":
                    names = [self.name("T") for _ in range(self.rng.randint(1, 3))]
                    t, nf = self.type_block(names)
                    self.decl_starts.append(len(toks))
                    toks += t
                    nfs += nf
                    i += len(names)
                    continue
                if k == "decl.function":
                    t, nf = self.function(self.name("Fn"))
                elif k == "decl.fb":
                    t, nf = self.function_block(self.name("Fb"))
                elif k == "decl.program":
                    pn = self.name("Prg")
                    t, nf = self.program(pn)
                    programs.append(pn)
                else:
                    t, nf = self.configuration(self.name("Cfg"), programs)
            except Unavailable:
                # a production whose every alternative is avoided: drop this declaration, try another
                self.atoms, self.addrs = saved
                tries += 1
                if tries > 200:
                    raise
                continue
            self.decl_starts.append(len(toks))
            toks += t
            nfs.append(nf)
            i += 1
        return toks, nfs
